#!/bin/bash
# ./selftest_determinism.sh [engine ...]  -- same (seed, run index) must give the same event-log fingerprint in
# every process, for GOMAXPROCS 1/4/16, in forward and reverse run order, in the plain and the -race binary.
set -uo pipefail
V=$(cd "$(dirname "$0")" && pwd)
export GOFLAGS=-mod=mod GOPROXY=off GOSUMDB=off GOTOOLCHAIN=local
S=$(mktemp -d "${TMPDIR:-/tmp}/verifdet.XXXXXX"); trap 'rm -rf "$S"' EXIT
"$V/mk.sh" "$S" race >"$S/build.log" 2>&1 || { tail -30 "$S/build.log"; exit 2; }
ENGINES=${*:-$("$S/bin/simrun" engines)}
COUNT=${COUNT:-64}; PROCS=${PROCS:-30}
rc=0
for e in $ENGINES; do
  i=0
  for p in $(seq 1 $PROCS); do
    gmp=$(( (p % 3 == 0) ? 1 : (p % 3 == 1 ? 4 : 16) ))
    rev=""; [ $((p % 2)) = 0 ] && rev="-reverse"
    bin=$S/bin/simrun; [ $((p % 5)) = 0 ] && bin=$S/bin/simrun-race
    ( GOMAXPROCS=$gmp "$bin" fingerprints -engine $e -seed ${VERIF_SEED:-1} -count $COUNT $rev -known "$V/known_findings.json" > "$S/fp.$e.$p" 2>"$S/err.$e.$p" ) &
    i=$((i+1)); [ $((i % 15)) = 0 ] && wait
  done
  wait
  # same binary: every run must have one fingerprint.  Across binaries runs may differ only where the plain
  # binary reports a violation (the -race binary does not evaluate oracles that read server memory or build
  # reference servers, so such a run continues where the plain one stops).
  np=$(ls "$S"/fp.$e.* | while read f; do n=${f##*.}; [ $((n % 5)) != 0 ] && cat $f; done | sort -u | wc -l)
  nr=$(ls "$S"/fp.$e.* | while read f; do n=${f##*.}; [ $((n % 5)) = 0 ] && cat $f; done | sort -u | wc -l)
  nx=$(cat "$S"/fp.$e.* | grep ' \[\]$' | sort -u | awk '{print $1}' | sort | uniq -d | wc -l)
  if [ "$np" != "$COUNT" ] || [ "$nr" != "$COUNT" ] || [ "$nx" != 0 ]; then
    echo "NONDETERMINISM engine=$e: plain binary $np, -race binary $nr distinct lines for $COUNT runs; $nx violation-free runs differ between the binaries"; rc=2
    cat "$S"/fp.$e.* | sort | uniq -c | awk '$1 != '"$PROCS"'' | head -10
  else
    echo "deterministic: engine=$e $COUNT runs x $PROCS processes (GOMAXPROCS 1/4/16, forward/reverse, 1 in 5 under -race) -> identical fingerprints per binary; violation-free runs identical across binaries"
  fi
done
exit $rc
