#!/bin/bash
# mk.sh <scratchdir> [race]  -- copy /repo working tree, instrument, copy sim packages, build simrun
set -euo pipefail
export GOFLAGS=-mod=mod GOPROXY=off GOSUMDB=off GOTOOLCHAIN=local
S=$1; RACE=${2:-}
V=$(cd "$(dirname "$0")" && pwd)
REPO=${VERIF_REPO:-/repo}
mkdir -p "$S/src" "$S/bin"
rsync -a --delete --exclude .git --exclude '*_test.go' "$REPO"/ "$S/src"/
( cd "$V/tools" && go1.26.8 build -o "$S/bin/instrument" ./instrument )
"$S/bin/instrument" -dir "$S/src" -report "$S/instrument_report.json"
mkdir -p "$S/src/internal/verifsim" "$S/src/cmd/verifsim"
rsync -a "$V/sim/" "$S/src/internal/verifsim/" --exclude cmd --exclude README.md
rsync -a "$V/sim/cmd/" "$S/src/cmd/verifsim/"
( cd "$S/src" && go1.26.8 build -trimpath -tags verifsim -o "$S/bin/simrun" ./cmd/verifsim )
if [ -n "$RACE" ]; then
  ( cd "$S/src" && go1.26.8 build -trimpath -race -tags verifsim -o "$S/bin/simrun-race" ./cmd/verifsim )
fi
