#!/bin/bash
# tools/import_seeded.sh <worktree> <PROP> <variant letter> : copy a sub-agent's seeded change into /verif/seeded/<id>/ and
# confirm, on scratch copies of /repo, that (1) the demo passes on the clean tree, (2) with the change the tree builds and the
# pinned suite passes, (3) the demo fails with the change.  Writes seeded/<id>/confirm.txt.
set -uo pipefail
V=$(cd "$(dirname "$0")/.." && pwd)
W=$1; P=$2; L=$3
id=$(echo "$P" | tr A-Z a-z)-${WAVE:-agent}-$(echo "$L" | tr A-Z a-z)
D="$V/seeded/$id"; mkdir -p "$D"
cp "$W/mut$L.diff" "$D/patch.diff"; cp "$W/demo${L}_test.go.txt" "$D/demo_test.go.txt"; cp "$W/NOTES.md" "$D/AGENT_NOTES.md"
[ -f "$D/props.txt" ] || echo "$P" > "$D/props.txt"
[ -f "$D/source.txt" ] || echo "sub-agent${WAVE:+ ($WAVE)}" > "$D/source.txt"
[ -f "$D/needs.txt" ] || echo "see AGENT_NOTES.md, variant $L" > "$D/needs.txt"
dest=$(head -12 "$D/demo_test.go.txt" | grep -o 'internal/[a-z]*/[a-zA-Z0-9_]*_test\.go' | head -1)
run=$(head -14 "$D/demo_test.go.txt" | grep -o "\-run '\?[A-Za-z0-9_]*'\?" | head -1 | sed "s/-run //; s/'//g")
[ -n "$run" ] || run=Demo
race=""; head -14 "$D/demo_test.go.txt" | grep -q "go test -race" && race="-race"
pkg=./$(dirname "$dest")/
export GOFLAGS=-mod=mod GOPROXY=off
R=$(mktemp -d /tmp/importseed.XXXXXX); trap 'rm -rf "$R"' EXIT
rsync -a --exclude .git /repo/ "$R"/
cp "$D/demo_test.go.txt" "$R/$dest"
{
echo "demo: $dest  run: $run $race"
( cd "$R" && timeout 300 go test $race -vet=off -count=1 -run "$run" $pkg >"$R/.o1" 2>&1 ) && echo "1. demo on clean tree: PASS" || { echo "1. demo on clean tree: FAIL (unexpected)"; tail -5 "$R/.o1"; }
rm "$R/$dest"
( cd "$R" && git apply "$D/patch.diff" ) && echo "2a. patch applies" || echo "2a. patch DOES NOT APPLY"
( cd "$R" && go build ./... && go test -vet=off -count=1 ./... >"$R/.o2" 2>&1 ) && echo "2b. build + pinned suite with the change: PASS" || { echo "2b. suite with the change: FAIL"; grep -v '^ok' "$R/.o2" | head -5; }
cp "$D/demo_test.go.txt" "$R/$dest"
( cd "$R" && timeout 300 go test $race -vet=off -count=1 -run "$run" $pkg >"$R/.o3" 2>&1 ) && echo "3. demo with the change: PASS (unexpected: change not demonstrated)" || echo "3. demo with the change: FAIL (as intended)"
} | tee "$D/confirm.txt"
