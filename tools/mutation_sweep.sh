#!/bin/bash
# tools/mutation_sweep.sh phase1|phase2 : statement-deletion mutants of the stateful files of /repo.
#  phase1: every mutant that builds and keeps the pinned suite green is written to $OUT/survivors.txt (file n line kind)
#  phase2: each survivor is run against the quick tier of the checks that cover its file; results in $OUT/results.txt
# Not part of any check: a search for blind spots (DESIGN 13).
set -uo pipefail
V=$(cd "$(dirname "$0")/.." && pwd)
OUT=${OUT:-/tmp/mutsweep}; mkdir -p "$OUT"
export GOFLAGS=-mod=mod GOPROXY=off
FILES="internal/server/server.go internal/server/settings.go internal/workspace/workspace.go internal/workspace/index.go internal/include/loader.go internal/server/semantic.go internal/server/inline_completion.go"
SD=$OUT/stmtdel
( cd "$V/tools" && GOSUMDB=off GOTOOLCHAIN=local go1.26.8 build -o "$SD" ./stmtdel )
one() { # file n
  f=$1; n=$2
  R=$(mktemp -d /tmp/ms.XXXXXX)
  rsync -a --exclude .git /repo/ "$R"/
  "$SD" -file "$R/$f" -apply "$n"
  if ( cd "$R" && go build ./... >/dev/null 2>&1 && go vet ./$(dirname $f)/ >/dev/null 2>&1 && go test -vet=off -count=1 ./... >/dev/null 2>&1 ); then
    echo "$f $n $3" >> "$OUT/survivors.txt"
  fi
  rm -rf "$R"
}
case "${1:-phase1}" in
phase1)
  : > "$OUT/survivors.txt"
  for f in $FILES; do
    "$SD" -file /repo/$f | while read n desc; do
      while [ $(jobs -r | wc -l) -ge 10 ]; do sleep 0.3; done
      one $f $n $desc &
    done
    wait
  done
  wait
  sort -o "$OUT/survivors.txt" "$OUT/survivors.txt"
  wc -l "$OUT/survivors.txt";;
phase2)
  : > "$OUT/results.txt"
  while read f n desc; do
    case $f in
      internal/server/se*) props="C17 C14 C19";;
      internal/server/*) props="C13 C14 C01 C19 C16 C20 C18";;
      internal/workspace/*) props="C12 C14 C18 C16";;
      internal/include/*) props="C11 C10 C14 C09";;
    esac
    R=$(mktemp -d /tmp/ms.XXXXXX); rsync -a --exclude .git /repo/ "$R"/; "$SD" -file "$R/$f" -apply "$n"
    caught=""
    for p in $props; do
      res=$(cd "$V" && VERIF_REPO="$R" ./check $p quick 2>&1); rc=$?
      if [ $rc = 1 ]; then caught="$caught $p"; break; fi
      [ $rc = 2 ] && caught="$caught $p(exit2)"
    done
    echo "$desc #$n caught_by:${caught:- NONE}" | tee -a "$OUT/results.txt"
    rm -rf "$R"
  done < "${SURV:-$OUT/survivors.txt}";;
esac
