#!/bin/bash
# tools/run_seeded.sh <seeded-id> <PROP> [PROP...]
# Applies seeded/<id>/patch.diff to a scratch COPY of /repo's working tree (never to /repo itself), checks that the
# copy still builds and passes the pinned suite, runs the quick checks of the given properties against the copy
# (VERIF_REPO), and records which of them report a VIOLATION in seeded/<id>/last_run.txt.
set -uo pipefail
V=$(cd "$(dirname "$0")/.." && pwd)
id=$1; shift
P="$V/seeded/$id/patch.diff"
[ -f "$P" ] || { echo "no $P"; exit 2; }
R=$(mktemp -d "${TMPDIR:-/tmp}/seededrepo.XXXXXX"); trap 'rm -rf "$R"' EXIT
rsync -a --exclude .git /repo/ "$R"/
# patches were written against the /repo HEAD of their time; later fix: commits move their context, so a
# patch that git does not take is retried with GNU patch and a small fuzz
( cd "$R" && { git apply "$P" 2>/dev/null || patch -p1 -F3 --no-backup-if-mismatch < "$P" >/dev/null 2>&1; } ) || { echo "$id: patch does not apply to /repo's working tree"; exit 2; }
out="$V/seeded/$id/last_run.txt"; : > "$out"
if [ "${SKIP_SUITE:-}" != 1 ]; then
  if ( cd "$R" && GOFLAGS=-mod=mod GOPROXY=off go build ./... && GOFLAGS=-mod=mod GOPROXY=off go test -vet=off -count=1 ./... >"$R/.suite.log" 2>&1 ); then
    echo "suite: pass" | tee -a "$out"
  else
    echo "suite: FAIL (not a valid seeded change)" | tee -a "$out"; grep -v "^ok" "$R/.suite.log" | head -5
  fi
fi
for p in "$@"; do
  res=$(cd "$V" && VERIF_REPO="$R" ./check $p ${TIER:-quick} 2>&1); rc=$?
  n=$(echo "$res" | grep -c '^VIOLATION')
  first=$(echo "$res" | grep -A1 '^VIOLATION' | sed -n 2p | cut -c1-260)
  echo "$p: exit=$rc violations=$n $first" | tee -a "$out"
done
