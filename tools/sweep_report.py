import re,collections
cls={
 'equivalent':'no observable difference: a cache store (performance only), a default normalised in two places, a nil-guard that is never hit, re-initialisation in a function that runs once, bookkeeping that a later step recomputes (FileOrder before reorderResolvedLocked, caches cleared again by the caller), a loader invalidation whose file is re-read with the same content, a line made redundant by fix 79c6fa2',
 'dead':'only reachable from tests (StoreDocument, publishDiagnostics wrapper, LoadErrors/ParseErrors getters and what feeds them)',
 'pure':'changes what is computed from one text, the same on the incremental and on the rebuilt / fresh side (token encoding, derived tag list): outside what the claims cover (C08 n/a, C12 is differential by definition)',
 'scope':'behaviour no listed property speaks about (root discovery without main.journal, the initial configuration pull, the CLI timeout, diagnostics published for a document that has been closed)',
 'rare':'a real difference behind a rare history; not met by the quick tier under the load of the sweep',
}
manual={
 'include/loader.go:301':'equivalent','include/loader.go:57':'equivalent','include/loader.go:60':'equivalent',
 'server/semantic.go:104':'pure','server/semantic.go:110':'equivalent','server/semantic.go:111':'equivalent','server/semantic.go:142':'equivalent','server/semantic.go:205':'equivalent',
 'server/server.go:173':'scope','server/server.go:191':'equivalent','server/server.go:273':'equivalent','server/server.go:258':'scope','server/server.go:261':'rare',
 'server/server.go:309':'dead','server/server.go:375':'equivalent','server/server.go:48':'equivalent','server/server.go:71':'dead',
 'server/settings.go:100':'equivalent','server/settings.go:106':'equivalent','server/settings.go:109':'scope','server/settings.go:112':'equivalent','server/settings.go:115':'equivalent',
 'workspace/index.go:216':'equivalent','workspace/index.go:253':'pure','workspace/index.go:488':'equivalent',
 'workspace/workspace.go:196':'dead','workspace/workspace.go:218':'scope','workspace/workspace.go:294':'equivalent','workspace/workspace.go:296':'equivalent',
 'workspace/workspace.go:306':'equivalent','workspace/workspace.go:327':'equivalent','workspace/workspace.go:328':'equivalent','workspace/workspace.go:336':'equivalent','workspace/workspace.go:340':'equivalent',
 'workspace/workspace.go:439':'equivalent','workspace/workspace.go:440':'equivalent','workspace/workspace.go:443':'equivalent','workspace/workspace.go:465':'equivalent',
 'workspace/workspace.go:554':'equivalent','workspace/workspace.go:583':'equivalent','workspace/workspace.go:612':'equivalent',
 'workspace/workspace.go:66':'equivalent','workspace/workspace.go:67':'equivalent','workspace/workspace.go:69':'equivalent','workspace/workspace.go:70':'equivalent','workspace/workspace.go:72':'equivalent','workspace/workspace.go:73':'equivalent',
 'workspace/workspace.go:92':'dead','workspace/workspace.go:93':'dead','workspace/workspace.go:98':'dead','workspace/workspace.go:99':'dead',
}
rows=[]; caught=collections.Counter(); none=[]
for l in open('/verif/seeded/sweep_results.txt'):
    m=re.match(r'/repo/internal/(\S+?):(\d+):(\w+) #(\d+) caught_by:(.*)',l)
    f,ln,kind,n,by=m.groups(); by=by.strip()
    src=open('/repo/internal/'+f).read().split('\n')[int(ln)-1].strip()
    rows.append((f,int(ln),kind,src,by))
    if by=='NONE': none.append(f+":"+ln)
    else: caught[re.sub(r'\(exit2\)','',by.split()[-1])]+=1
rows.sort()
cc=collections.Counter(manual[x] for x in none)
out=["# Statement-deletion sweep","",
"`tools/mutation_sweep.sh`: every call / assignment / defer / go / inc-dec statement of the seven stateful files",
"(server.go, settings.go, semantic.go, inline_completion.go, workspace.go, index.go, loader.go) deleted in turn.",
"Phase 1 kept the 130 mutants that build, pass `go vet` and keep the pinned suite green. Phase 2 ran the quick tier",
"of the checks that cover the file (first VIOLATION wins). The 4 survivors in inline_completion.go were dropped when",
"fix 79c6fa2 changed that file under the sweep; 126 were judged.","",
"* caught: **%d** of 126 (by the check that reported first: %s)" % (sum(caught.values()), ", ".join("%s %d"%(k,v) for k,v in sorted(caught.items()))),
"* not caught: **%d**, classified by reading the code:" % len(none),""]
for k in ['equivalent','dead','pure','scope','rare']:
    out.append("  * %d x *%s* - %s" % (cc[k],k,cls[k]))
out+=["",
"Entries marked `(exit2)` are from the first pass of the sweep, when a mutant that unlocks an unlocked mutex, overflows",
"the stack, never releases a lock or never leaves a loop made a check die or hang instead of reporting; all four now end",
"in a VIOLATION with a replay file (DESIGN 11.4 (xvi)); five mutants that had hung their check were judged again afterwards.",
"The *rare* one (DidClose without `resolved.Delete`) needs an analysis in flight at close and a",
"request right after the re-open; it is `seeded/revert-9ad9b43`, which C14 catches with the machine to itself",
"(re-check: C14 exit 1) but did not under the sweep's load (3 streams x 5 workers on 16 cores, other jobs beside them).","",
"| site | kind | statement | verdict |","|---|---|---|---|"]
for f,ln,kind,src,by in rows:
    v = by if by!='NONE' else 'not caught: '+manual[f+":"+str(ln)]
    out.append("| %s:%d | %s | `%s` | %s |" % (f,ln,kind,src[:70].replace('|','/'),v))
open('/verif/seeded/SWEEP.md','w').write("\n".join(out)+"\n")
print(sum(caught.values()),len(none),cc)
