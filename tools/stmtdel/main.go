// stmtdel enumerates statement-deletion mutants of Go source files: for every
// expression statement (a call), assignment to a field / map element / package
// variable, inc/dec, go and defer statement inside a function body it prints
// "<file>:<line>:<kind>" (-list) or writes the file with statement number N
// removed (-apply N).  Used by tools/mutation_sweep.sh to look for blind spots
// of the checks; it is not part of any check.
package main

import (
	"bytes"
	"flag"
	"fmt"
	"go/ast"
	"go/format"
	"go/parser"
	"go/token"
	"os"
)

func main() {
	file := flag.String("file", "", "")
	apply := flag.Int("apply", -1, "")
	flag.Parse()
	fset := token.NewFileSet()
	f, err := parser.ParseFile(fset, *file, nil, parser.ParseComments)
	if err != nil {
		fmt.Fprintln(os.Stderr, err)
		os.Exit(2)
	}
	n := 0
	var visitList func(list []ast.Stmt) []ast.Stmt
	kind := func(s ast.Stmt) string {
		switch x := s.(type) {
		case *ast.ExprStmt:
			if _, ok := x.X.(*ast.CallExpr); ok {
				return "call"
			}
		case *ast.AssignStmt:
			if x.Tok == token.DEFINE {
				return ""
			}
			for _, l := range x.Lhs {
				switch l.(type) {
				case *ast.SelectorExpr, *ast.IndexExpr:
					return "assign"
				}
			}
		case *ast.IncDecStmt:
			return "incdec"
		case *ast.GoStmt:
			return "go"
		case *ast.DeferStmt:
			return "defer"
		}
		return ""
	}
	visitList = func(list []ast.Stmt) []ast.Stmt {
		var out []ast.Stmt
		for _, s := range list {
			if k := kind(s); k != "" {
				if *apply < 0 {
					fmt.Printf("%d %s:%d:%s\n", n, *file, fset.Position(s.Pos()).Line, k)
				}
				if n == *apply {
					n++
					continue
				}
				n++
			}
			out = append(out, s)
		}
		return out
	}
	ast.Inspect(f, func(nd ast.Node) bool {
		switch b := nd.(type) {
		case *ast.BlockStmt:
			b.List = visitList(b.List)
		case *ast.CaseClause:
			b.Body = visitList(b.Body)
		case *ast.CommClause:
			b.Body = visitList(b.Body)
		}
		return true
	})
	if *apply >= 0 {
		var buf bytes.Buffer
		if err := format.Node(&buf, fset, f); err != nil {
			fmt.Fprintln(os.Stderr, err)
			os.Exit(2)
		}
		os.WriteFile(*file, buf.Bytes(), 0o644)
	}
}
