#!/bin/bash
# tools/run_benign.sh <benign-id>: applies benign/<id>/patch.diff (a behaviour-preserving change) to a scratch COPY of
# /repo and runs EVERY claimed check's quick tier against it: any VIOLATION (exit 1) would be a false alarm, exit 2 a
# build/instrumentation weakness.  Result in benign/<id>/last_run.txt.
set -uo pipefail
V=$(cd "$(dirname "$0")/.." && pwd)
id=$1
P="$V/benign/$id/patch.diff"
[ -f "$P" ] || { echo "no $P"; exit 2; }
R=$(mktemp -d "${TMPDIR:-/tmp}/benignrepo.XXXXXX"); trap 'rm -rf "$R"' EXIT
rsync -a --exclude .git /repo/ "$R"/
( cd "$R" && git apply "$P" ) || { echo "$id: patch does not apply"; exit 2; }
out="$V/benign/$id/${OUTNAME:-last_run.txt}"; : > "$out"
if ( cd "$R" && GOFLAGS=-mod=mod GOPROXY=off go build ./... && GOFLAGS=-mod=mod GOPROXY=off go test -vet=off -count=1 ./... >"$R/.suite.log" 2>&1 ); then echo "suite: pass" | tee -a "$out"; else echo "suite: FAIL" | tee -a "$out"; fi
for p in ${PROPS:-C01 C09 C10 C11 C12 C13 C14 C15 C16 C17 C18 C19 C20}; do
  res=$(cd "$V" && VERIF_REPO="$R" ./check $p quick 2>&1); rc=$?
  first=$(echo "$res" | grep -A1 '^VIOLATION' | sed -n 2p | cut -c1-300)
  [ $rc = 2 ] && first=$(echo "$res" | grep -i "trouble\|cannot\|error" | head -2 | tr '\n' ' ' | cut -c1-300)
  echo "$p: exit=$rc $first" | tee -a "$out"
done
