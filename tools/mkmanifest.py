#!/usr/bin/env python3
"""Regenerates /verif/MANIFEST.json from the tables below (python3 tools/mkmanifest.py)."""
import json, os
V = os.path.dirname(os.path.dirname(os.path.abspath(__file__)))
TECH = "deterministic simulation with fault injection"
NOTE_COMMON = ("Trusted base: the go/ast instrumenter (tools/instrument) and the sim packages (sim/simrt, simsync, simfs, simclock, simexec, simwire) reproduce the semantics of the constructs they replace; "
               "the oracle/reference model written in sim/engine; Go toolchain go1.26.8. Seeded search: a clean batch is evidence, not proof. ")
CHECKS = {
 "C09": dict(level="exploration", design="5.9",
   text="Claimed for the part that depends on histories and schedules: which files are searched and under which path each syntax tree is filed. Full-server simulation of histories (opens of root/included/unrelated documents, unsaved structured edits that add, remove and move occurrences and include lines, saves, closes, re-opens) under 7 schedule policies with and without workspace root; at quiescent points references (with/without declarations) and rename are asked from EVERY open document on positions drawn from the generator's occurrence table, and the returned (file, line, start column) set must equal the occurrence table over the governing tree (open buffers over disk). Rename must edit exactly those occurrences with the new name.",
   note="NOT claimed: exactness of a range inside its line (end column) and cursor-to-symbol resolution on directives: pure functions of (text, position). Without a workspace, included files are kept saved and the requesting document is re-analysed by a no-op edit before it is asked, because the server then reads included files from disk by design."),
 "C20": dict(level="exploration", design="5.20",
   text="Claimed for the part that depends on histories and schedules: WHICH files are aggregated and HOW OFTEN. Same histories as C09; every document i posts 10^(i-1) W to the shared account agg:all exactly once, so the hover balance read as a decimal numeral is the multiset of files that were aggregated (conservation oracle: digit 1 exactly at the files of the governing tree, 2 = counted twice, 0 = left out); posting / transaction counts of the shared account, payee and tag must equal the number of files in the tree. Asked from every open document at quiescent points.",
   note="NOT claimed: that decimal sums are exact in every number notation (pure). Same scoping of the no-workspace mode as C09."),
 "C17": dict(level="exploration", design="5.17",
   text="Claimed for the history-dependent part of the property. Full-server simulation with 1..3 open documents sharing the server's process-global token cache: seeded histories interleave edits, didClose/re-open and semanticTokens full / range / full/delta requests whose previousResultId is current, stale (including ids from before a close), another document's, garbage or empty. A client-side model keeps the array a client would hold and checks: the array rebuilt from delta answers equals a full result requested right afterwards; a range answer equals the full result restricted to the requested lines; a delta is only ever returned against the id the server issued last for that URI; ids are not reused; streams are decodable (multiple of 5, no wrapped fields, lines inside the text, types inside the advertised legend).",
   note="NOT claimed: that each token covers exactly its lexeme (pure function of the text); tokens that overlap or swallow the CR of a CRLF line end are counted as an unclaimed by-product in the evidence, never a verdict. The explicit range 0:0-0:0 (open C01 finding) is not generated so that the client's text model stays exact."),
 "C19": dict(level="exploration", design="5.19",
   text="Full-server simulation in which the second party is simulated: the server ASKS the client for its configuration from a background goroutine and applies the answer when it comes. The simulated client answers with generated payloads of every shape the property names (per documented key: right type, number as string, integral and non-integral float, boolean as string, null, array, object, zero, negative, unknown keys, nested/dotted spelling, with/without wrapper, non-object payloads), or with an error, with [], late, never, with up to two refreshes in flight, under 7 schedule policies. An independent ~120-line settings model predicts the acceptable value set per key and is compared ONLY through behaviour probes at quiescence (capabilities, completion count/matching/details, formatting and inline-completion layout, diagnostic codes, limit numbers in include diagnostics); every event is followed by requests that must be answered.",
   note="One open known finding: with two refreshes in flight, answers that set the same key are applied in goroutine order, not in the order the client sent them (class reply-order: recognised by re-evaluating the observation against the model with the overlapping replies permuted). Values the text leaves open (non-integral floats, numbers beyond int64) are modelled as sets."),
 "C15": dict(level="exploration", design="5.15",
   text="Full-server simulation in which the iteration order of EVERY map range of the repository's code (58 rewritten range statements, plus sync.Map.Range) and the background schedule are simulator decisions: one generated world and one fixed request script per run are executed on V fresh servers (canonical order + sequential schedule vs seeded permutations + seeded schedules), every request twice; everything the client received at quiescent points must be byte-identical after canonical JSON. A dependence on map order is therefore found in two executions and replays exactly, instead of hoping the runtime's random order differs within 50 repetitions; on a mismatch the permutation is narrowed to the single range statements that matter and they are named in the report.",
   note="Map ranges inside dependencies are not rewritten (only the repository's own code); semantic-token result ids are opaque and blanked."),
 "C14": dict(level="exploration", design="5.14",
   text="Full-server simulation over the wire with every goroutine the server starts (one per didOpen/didChange, one per initialized/didChangeConfiguration) as a simulator task, preempted at every lock, sync.Map operation, disk/clock/exec call and client call under 7 schedule policies, with the client answering workspace/configuration immediately, late, with an error, with [] or never, hledger found or not, and optional transport close. Invariants: no panic, no deadlock (cooperative locks model Go's writer preference), no livelock within the step budget. A second binary built with -race runs the same seeds with happens-before-invisible hand-offs, so two server goroutines are ordered for the detector only by the program's own synchronisation; reports are re-run alone, minimised and replayed by choice list. Oracle on sampled responses: equality with a FRESH sequential reference server in the same client-visible state (or, while analysis of the requesting state is still pending, with the cold or the lagging reference), and no marker of a superseded version of the requesting document.",
   note="Without a workspace the disk is frozen (no didSave) because the server then learns about other files only on re-analysis. Settings payloads are well-typed and equal up to cli.path/timeout so the effective settings are unambiguous (ordering of configuration replies is C19). Plain memory races between yield points are found only by the -race pass."),
 "C01": dict(level="exploration", design="5.1",
   text="Full-server simulation over the wire: seeded histories of 5..40 client operations (didOpen / didChange with 1..4 content changes of every shape the property names / didClose / re-open / didSave, feature requests) on 1..3 URIs, text profile with ASCII, BMP and non-BMP characters, LF and CRLF, empty documents, with the server's background tasks preempted anywhere and inbound bytes chunked arbitrarily. After EVERY notification the server's copy (read through a debug request handled on the dispatcher goroutine, after real JSON decoding) must equal an independently written UTF-16 reference client buffer; every response on a marker-carrying document is scanned for markers of superseded versions. Histories against a reference model, with the schedule owned by the simulator, are what this property quantifies over.",
   note="One genuine defect is recorded as an open known finding (explicit empty range 0:0-0:0 taken for a full replacement); its explain predicate recomputes the server's text under exactly that misreading, any other mismatch is a violation. Without a workspace, markers of OTHER documents (read from disk by design) are not judged."),
 "C13": dict(level="exploration", design="5.13",
   text="Full-server simulation over the wire (real jsonrpc2 framing and read loop, real protocol dispatch, generated copy of the dispatcher, instrumented server): bursts of 2..5 changes to 1..2 documents carrying version markers; the simulator owns which publish goroutine runs and where it is preempted. For bursts of 2,3,4 changes EVERY permutation of publish order is enumerated under two policies (publish-point release, run-to-completion): 128 schedules; seeded fine-grained interleavings under 7 schedule policies cover bursts up to 5 with notifications arriving mid-analysis. Oracle: at quiescence the last publishDiagnostics per open URI carries the marker of the latest version only. Schedules are exactly what this property quantifies over.",
   note="Markers make the verdict independent of what other diagnostics say. Back-pressure on stdout is not simulated."),
 "C10": dict(level="fault_enumeration", design="5.10",
   text="Component simulation of the real include.Loader on a simulated disk: generated include graphs (<=5 files, all path forms, globs, cycles, diamonds, dangling/oversized/directory targets, depth and size limits) are resolved under seeded sticky and one-shot disk faults, and for a set of graphs EVERY single one-shot fault kind is injected at EVERY disk-call index of the fault-free execution. Each result is compared with an independent ancestor-stack reachability model that is fed the outcomes of the loader's own disk calls. Exploration + complete single-fault enumeration per graph is the right level: the property quantifies over graphs and over what the disk answers, both of which the simulator owns.",
   note="Depth limit semantics are ambiguous by one (does the root count?): the model asserts nothing at the boundary. The glob matcher is the real doublestar code over an fs.FS view of the simulated disk."),
 "C11": dict(level="exploration", design="5.11",
   text="Component simulation: ONE shared include.Loader is driven through seeded histories (<=6 ops: Load/LoadFromContent of any root, external rewrite + InvalidateFile/ClearCache, ClearCache) over generated include graphs on the simulated disk; after every load a fresh loader on the same disk must return equal files, order, syntax trees and errors. History dependence through a cache is exactly what seeded operation histories against a differential reference decide.",
   note="Histories follow the property: a file changed on disk is always invalidated (or the cache cleared) before the next load."),
 "C12": dict(level="exploration", design="5.12",
   text="Component simulation of workspace.Workspace on the simulated disk: Initialize, then <=8 UpdateFile steps with generated journal-profile texts that change include lists (files become reachable/unreachable, cycles), saved or unsaved, optional sticky disk faults on files about to become reachable, optional seeded permutation of every map iteration in the workspace code; after EVERY step the complete aggregated view is compared with a fresh Workspace+Loader initialised on a clone of the disk overlaid with the unsaved member texts.",
   note="Root election from the include graph (no main.journal) and re-expansion of glob includes when a file is created are outside the update model and not generated (DESIGN 11). Payee templates are compared up to the order-dependence a rebuild itself has."),
}
NA = {
 "C02": "pure function of the transaction text (lexer, number normalisation, exact decimal sum); no schedule, fault, clock, map order or history can change the verdict (DESIGN 5.2)",
 "C03": "pure function of the journal text; needs grammar-based input generation against a model, not simulation (DESIGN 5.3)",
 "C04": "Format is a synchronous pure function of (text, options, commodity formats); freshness of the formats/options it reads is decided under C12/C19 (DESIGN 5.4)",
 "C05": "same as C04: pure in (text, options, formats) (DESIGN 5.5)",
 "C06": "quantifies over arbitrary byte strings with coverage-guided mutation and CPU time; failures are content-triggered, not schedule- or fault-triggered (DESIGN 5.6)",
 "C07": "relation between two pure parses of intact/damaged text; no simulator-decided choice affects it (DESIGN 5.7)",
 "C08": "pure function of (text, position); needs all-position sweeps on non-ASCII journals (DESIGN 5.8)",
 "C16": "pure function of (state, position, settings); its stale-state, ordering and limit aspects are decided under C01/C14, C15 and C19 (DESIGN 5.16)",
 "C18": "pure function of (text, declared sets, three booleans); freshness is C12, settings C19, staleness C13 (DESIGN 5.18)",
}
PENDING = {}
def load_pending():
    p = os.path.join(V, "tools", "pending.json")
    return json.load(open(p)) if os.path.exists(p) else {}
m = {
 "version": 1,
 "setup_cmd": "cd /verif && export GOFLAGS=-mod=mod GOPROXY=off GOSUMDB=off GOTOOLCHAIN=local && (cd tools && go1.26.8 build -o /dev/null ./instrument) && go1.26.8 build std >/dev/null 2>&1; true",
 "hooks": {
  "guard": "verifsim",
  "enable": "no hook is committed to /repo: every check copies /repo's working tree to a scratch dir, rewrites the copy with /verif/tools/instrument (go/ast + go/types) and builds it with go1.26.8 -tags verifsim (mk.sh)",
  "baseline_off_cmd": "cd /repo && GOFLAGS=-mod=mod GOPROXY=off go test -vet=off -count=1 -timeout 25m ./...",
  "source_commits": [],
  "add_only": True,
 },
 "engines": [
  {"name": "simrun", "path": "sim/", "serves_properties": sorted(CHECKS), "kind_free_text": "deterministic simulator: cooperative task scheduler (simrt), simulated locks/sync.Map (simsync), disk+env with faults (simfs), clock, process spawn, wire transport and client model (simwire), seeded chooser with choice-list shrinking and replay; engines and oracles in sim/engine; runner sim/cmd"},
  {"name": "instrument", "path": "tools/instrument", "serves_properties": sorted(CHECKS), "kind_free_text": "go/ast+go/types source rewriter applied to a scratch copy of /repo: go statements, sync types, map ranges, os/filepath/doublestar/time/exec calls, importable copy of cmd/hledger-lsp"},
 ],
 "checks": [],
 "not_applicable": [],
 "notes": "All checks: ./check <ID> quick|thorough (VERIF_SEED, VERIF_WORKERS honoured); replay: ./check replay <file>. Exit 0 held / 1 VIOLATION / 2 harness trouble. Genuine defects found so far are repaired by fix: commits in /repo and recorded in known_findings.json.",
}
for pid in sorted(CHECKS):
    c = CHECKS[pid]
    m["checks"].append({
      "property_id": pid,
      "quick_cmd": f"./check {pid} quick",
      "thorough_cmd": f"./check {pid} thorough",
      "evidence_file": f"evidence/{pid}.json",
      "replay_cmd_template": "./check replay {path}",
      "engine": "simrun",
      "level_claimed": {"category": c["level"], "text": c["text"], "design_ref": "DESIGN.md section " + c["design"]},
      "level_note": NOTE_COMMON + c["note"],
      "technique": TECH,
    })
for pid in sorted(NA):
    m["not_applicable"].append({"property_id": pid, "reason": NA[pid]})
pend = {"C01","C09","C13","C14","C15","C17","C19","C20"} - set(CHECKS)
if pend:
    m["notes"] += " Claimed in DESIGN.md but check not registered yet: " + ", ".join(sorted(pend)) + "."
json.dump(m, open(os.path.join(V, "MANIFEST.json"), "w"), indent=1)
print("wrote MANIFEST.json with", len(m["checks"]), "checks")
