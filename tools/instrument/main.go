// Command instrument rewrites a scratch copy of juev/hledger-lsp so that every
// source of nondeterminism goes through a seam the simulator owns (DESIGN.md
// section 3.1).  It never touches /repo.  Standard library only.
//
//	instrument -dir <scratch copy of the repo> [-report file.json]
//
// Exit status: 0 ok, 2 cannot instrument (unsupported construct, tree does not
// type-check, go list failed).
package main

import (
	"bytes"
	"encoding/json"
	"flag"
	"fmt"
	"go/ast"
	"go/format"
	"go/importer"
	"go/parser"
	"go/token"
	"go/types"
	"io"
	"os"
	"os/exec"
	"path/filepath"
	"sort"
	"strconv"
	"strings"
)

const modPath = "github.com/juev/hledger-lsp"
const simBase = modPath + "/internal/verifsim/"

type listPkg struct {
	Dir        string
	ImportPath string
	Export     string
	GoFiles    []string
	Standard   bool
	DepOnly    bool
	Module     *struct{ Path string }
	Error      *struct{ Err string }
}

type repl struct{ pkg, name string }

// (import path, selector) -> (sim package, name)
var selectorTable = map[[2]string]repl{
	{"sync", "Mutex"}:     {"simsync", "Mutex"},
	{"sync", "RWMutex"}:   {"simsync", "RWMutex"},
	{"sync", "Map"}:       {"simsync", "Map"},
	{"sync", "WaitGroup"}: {"simsync", "WaitGroup"},
	{"sync", "Once"}:      {"simsync", "Once"},

	{"os", "Stat"}:        {"simfs", "Stat"},
	{"os", "Lstat"}:       {"simfs", "Lstat"},
	{"os", "ReadFile"}:    {"simfs", "ReadFile"},
	{"os", "Getenv"}:      {"simfs", "Getenv"},
	{"os", "LookupEnv"}:   {"simfs", "LookupEnv"},
	{"os", "UserHomeDir"}: {"simfs", "UserHomeDir"},
	{"os", "Stderr"}:      {"simrt", "Stderr"},
	{"os", "Stdout"}:      {"simrt", "Stdout"},
	{"os", "Stdin"}:       {"simrt", "Stdin"},
	{"os", "Args"}:        {"simrt", "Args"},
	{"os", "Exit"}:        {"simrt", "Exit"},

	{"path/filepath", "Walk"}: {"simfs", "Walk"},
	{"path/filepath", "Abs"}:  {"simfs", "Abs"},

	{"github.com/bmatcuk/doublestar/v4", "FilepathGlob"}: {"simfs", "FilepathGlob"},

	{"time", "Now"}:       {"simclock", "Now"},
	{"time", "Since"}:     {"simclock", "Since"},
	{"time", "Until"}:     {"simclock", "Until"},
	{"time", "Sleep"}:     {"simclock", "Sleep"},
	{"time", "AfterFunc"}: {"simclock", "AfterFunc"},
	{"time", "Timer"}:     {"simclock", "Timer"},

	{"os/exec", "Command"}:        {"simexec", "Command"},
	{"os/exec", "CommandContext"}: {"simexec", "CommandContext"},
	{"os/exec", "LookPath"}:       {"simexec", "LookPath"},
}

// selectors of these packages that are NOT in selectorTable and not in
// allowed are constructs the simulator cannot own.
var allowed = map[string]map[string]bool{
	"sync": {"Locker": true},
	"os":   {"FileInfo": true, "FileMode": true, "PathSeparator": true, "ErrNotExist": true, "ErrExist": true, "IsNotExist": true, "IsExist": true, "ErrInvalid": true, "ErrPermission": true, "IsPermission": true, "PathError": true, "ModePerm": true, "ModeDir": true},
	"time": {"Time": true, "Duration": true, "Parse": true, "ParseInLocation": true, "Date": true, "Month": true, "Weekday": true, "UTC": true, "Local": true, "Location": true, "Unix": true, "UnixMilli": true,
		"Nanosecond": true, "Microsecond": true, "Millisecond": true, "Second": true, "Minute": true, "Hour": true, "RFC3339": true, "RFC3339Nano": true, "DateOnly": true, "DateTime": true, "TimeOnly": true, "ParseDuration": true,
		"January": true, "February": true, "March": true, "April": true, "May": true, "June": true, "July": true, "August": true, "September": true, "October": true, "November": true, "December": true,
		"Sunday": true, "Monday": true, "Tuesday": true, "Wednesday": true, "Thursday": true, "Friday": true, "Saturday": true, "Kitchen": true, "ANSIC": true, "Layout": true},
	"os/exec": {"ErrNotFound": true, "Error": true, "ExitError": true},
}

type report struct {
	Files         int            `json:"files"`
	Rewrites      map[string]int `json:"rewrites"`
	MapRangeSites []string       `json:"map_range_sites"`
	GoSites       []string       `json:"go_sites"`
	Unsupported   []string       `json:"unsupported"`
	Notes         []string       `json:"notes"`
}

var rep = report{Rewrites: map[string]int{}}

func fatal(format string, a ...any) {
	fmt.Fprintf(os.Stderr, "instrument: cannot instrument: "+format+"\n", a...)
	os.Exit(2)
}

func main() {
	dir := flag.String("dir", "", "scratch copy of the repository (rewritten in place)")
	reportPath := flag.String("report", "", "write rewrite counts here")
	goBin := flag.String("go", "go1.26.8", "go command")
	flag.Parse()
	if *dir == "" {
		fatal("-dir required")
	}
	abs, _ := filepath.Abs(*dir)

	cmd := exec.Command(*goBin, "list", "-export", "-deps", "-json", "./cmd/...")
	cmd.Dir = abs
	var stderr bytes.Buffer
	cmd.Stderr = &stderr
	out, err := cmd.Output()
	if err != nil {
		fatal("go list failed: %v\n%s", err, stderr.String())
	}
	exports := map[string]string{}
	var targets []*listPkg
	dec := json.NewDecoder(bytes.NewReader(out))
	for {
		var p listPkg
		if err := dec.Decode(&p); err == io.EOF {
			break
		} else if err != nil {
			fatal("go list output: %v", err)
		}
		if p.Error != nil {
			fatal("package %s: %s", p.ImportPath, p.Error.Err)
		}
		if p.Export != "" {
			exports[p.ImportPath] = p.Export
		}
		if p.Module != nil && p.Module.Path == modPath && !strings.Contains(p.ImportPath, "/internal/verifsim") {
			pp := p
			targets = append(targets, &pp)
		}
	}
	fset := token.NewFileSet()
	imp := importer.ForCompiler(fset, "gc", func(path string) (io.ReadCloser, error) {
		f, ok := exports[path]
		if !ok {
			return nil, fmt.Errorf("no export data for %s", path)
		}
		return os.Open(f)
	})

	var mainFiles []string
	for _, p := range targets {
		var files []*ast.File
		var names []string
		for _, gf := range p.GoFiles {
			fn := filepath.Join(p.Dir, gf)
			f, err := parser.ParseFile(fset, fn, nil, parser.ParseComments|parser.SkipObjectResolution)
			if err != nil {
				fatal("parse %s: %v", fn, err)
			}
			files = append(files, f)
			names = append(names, fn)
		}
		info := &types.Info{
			Types: map[ast.Expr]types.TypeAndValue{},
			Uses:  map[*ast.Ident]types.Object{},
		}
		var terrs []string
		conf := types.Config{Importer: imp, Error: func(err error) { terrs = append(terrs, err.Error()) }}
		conf.Check(p.ImportPath, fset, files, info)
		if len(terrs) > 0 {
			fatal("type-check %s: %s", p.ImportPath, strings.Join(terrs, "; "))
		}
		if strings.HasSuffix(p.ImportPath, "/internal/server") {
			writeServerHooks(fset, files, info, p.Dir)
		}
		for i, f := range files {
			rel, _ := filepath.Rel(abs, names[i])
			if !strings.HasPrefix(rel, "cmd/") && !strings.Contains(rel, "internal/testutil/") {
				addGlobalsReset(f)
			}
			rewriteFile(fset, f, info, rel)
			isMain := f.Name.Name == "main" && strings.HasPrefix(rel, "cmd/")
			if isMain {
				// emit the importable copy first (it needs its own import fix)
				mainFiles = append(mainFiles, names[i])
				writeGenerated(fset, f, abs, rel)
			}
			fixImports(f)
			writeFile(fset, f, names[i])
			rep.Files++
		}
	}
	if len(mainFiles) == 0 {
		fatal("no package main found under cmd/")
	}
	sort.Strings(rep.MapRangeSites)
	sort.Strings(rep.GoSites)
	if *reportPath != "" {
		b, _ := json.MarshalIndent(rep, "", " ")
		os.WriteFile(*reportPath, b, 0o644)
	}
	if len(rep.Unsupported) > 0 {
		fatal("constructs the simulator cannot own:\n  %s", strings.Join(rep.Unsupported, "\n  "))
	}
}

// addGlobalsReset appends `func init() { simrt.RegisterReset(func() { v = <its
// initialiser>; ... }) }` for the package-level variables declared in f, so
// that every simulated run starts from pristine process-global state (a cache
// a change keeps in a package variable would otherwise leak between runs and
// make a failure depend on the runs before it).
func addGlobalsReset(f *ast.File) {
	var body []ast.Stmt
	for _, d := range f.Decls {
		gd, ok := d.(*ast.GenDecl)
		if !ok || gd.Tok != token.VAR {
			continue
		}
		for _, sp := range gd.Specs {
			vs := sp.(*ast.ValueSpec)
			if len(vs.Values) != 0 && len(vs.Values) != len(vs.Names) {
				continue // var a, b = f(): not handled (none in the repository)
			}
			for i, n := range vs.Names {
				if n.Name == "_" {
					continue
				}
				var rhs ast.Expr
				switch {
				case len(vs.Values) > 0:
					rhs = vs.Values[i]
				case vs.Type != nil:
					rhs = &ast.StarExpr{X: &ast.CallExpr{Fun: ast.NewIdent("new"), Args: []ast.Expr{vs.Type}}}
				default:
					continue
				}
				reinit := &ast.FuncLit{Type: &ast.FuncType{Params: &ast.FieldList{}}, Body: &ast.BlockStmt{List: []ast.Stmt{
					&ast.AssignStmt{Lhs: []ast.Expr{ast.NewIdent(n.Name)}, Tok: token.ASSIGN, Rhs: []ast.Expr{rhs}}}}}
				body = append(body, &ast.ExprStmt{X: &ast.CallExpr{Fun: sel("simrt", "RegisterVar"),
					Args: []ast.Expr{&ast.UnaryExpr{Op: token.AND, X: ast.NewIdent(n.Name)}, reinit}}})
			}
		}
	}
	if len(body) == 0 {
		return
	}
	rep.Rewrites["globals-reset"] += len(body)
	f.Decls = append(f.Decls, &ast.FuncDecl{Name: ast.NewIdent("init"), Type: &ast.FuncType{Params: &ast.FieldList{}}, Body: &ast.BlockStmt{List: body}})
}

func siteOf(fset *token.FileSet, pos token.Pos, rel string) string {
	p := fset.Position(pos)
	return rel + ":" + strconv.Itoa(p.Line)
}

func pkgPathOf(info *types.Info, x ast.Expr) string {
	id, ok := x.(*ast.Ident)
	if !ok {
		return ""
	}
	if pn, ok := info.Uses[id].(*types.PkgName); ok {
		return pn.Imported().Path()
	}
	return ""
}

func sel(pkg, name string) *ast.SelectorExpr {
	return &ast.SelectorExpr{X: ast.NewIdent(pkg), Sel: ast.NewIdent(name)}
}

func strLit(s string) *ast.BasicLit {
	return &ast.BasicLit{Kind: token.STRING, Value: strconv.Quote(s)}
}

func rewriteFile(fset *token.FileSet, f *ast.File, info *types.Info, rel string) {
	// 1. statements: go statements inside statement lists
	var fixList func(list []ast.Stmt) []ast.Stmt
	fixList = func(list []ast.Stmt) []ast.Stmt {
		for i, st := range list {
			switch s := st.(type) {
			case *ast.GoStmt:
				list[i] = rewriteGo(fset, s, info, rel)
			case *ast.LabeledStmt:
				if g, ok := s.Stmt.(*ast.GoStmt); ok {
					s.Stmt = rewriteGo(fset, g, info, rel)
				}
			}
		}
		return list
	}
	ast.Inspect(f, func(n ast.Node) bool {
		switch b := n.(type) {
		case *ast.BlockStmt:
			b.List = fixList(b.List)
		case *ast.CaseClause:
			b.Body = fixList(b.Body)
		case *ast.CommClause:
			b.Body = fixList(b.Body)
		}
		return true
	})
	// any go statement left (e.g. as the body of an if without braces: impossible in Go) is an error
	ast.Inspect(f, func(n ast.Node) bool {
		switch x := n.(type) {
		case *ast.GoStmt:
			rep.Unsupported = append(rep.Unsupported, siteOf(fset, x.Pos(), rel)+": go statement in unsupported position")
		case *ast.SelectStmt:
			rep.Notes = append(rep.Notes, siteOf(fset, x.Pos(), rel)+": select statement (not owned by the simulator; a real block trips the watchdog)")
			rep.Rewrites["note.select"]++
		case *ast.SendStmt:
			rep.Notes = append(rep.Notes, siteOf(fset, x.Pos(), rel)+": channel send (not owned by the simulator)")
			rep.Rewrites["note.chan"]++
		case *ast.UnaryExpr:
			if x.Op == token.ARROW {
				rep.Notes = append(rep.Notes, siteOf(fset, x.Pos(), rel)+": channel receive (not owned by the simulator)")
				rep.Rewrites["note.chan"]++
			}
		case *ast.RangeStmt:
			t := info.TypeOf(x.X)
			if t != nil {
				if _, ok := t.Underlying().(*types.Map); ok {
					site := siteOf(fset, x.Pos(), rel)
					x.X = &ast.CallExpr{Fun: sel("simrt", "MapSeq"), Args: []ast.Expr{x.X, strLit(site)}}
					rep.Rewrites["maprange"]++
					rep.MapRangeSites = append(rep.MapRangeSites, site)
				}
			}
		case *ast.SelectorExpr:
			pp := pkgPathOf(info, x.X)
			if pp == "" {
				return true
			}
			if r, ok := selectorTable[[2]string{pp, x.Sel.Name}]; ok {
				x.X = ast.NewIdent(r.pkg)
				x.Sel = ast.NewIdent(r.name)
				rep.Rewrites[pp+"."+r.name]++
				return false
			}
			if al, ok := allowed[pp]; ok && !al[x.Sel.Name] {
				rep.Unsupported = append(rep.Unsupported, siteOf(fset, x.Pos(), rel)+": "+pp+"."+x.Sel.Name)
			}
			switch pp {
			case "net", "net/http", "math/rand", "math/rand/v2", "crypto/rand", "os/signal", "syscall", "unsafe":
				rep.Unsupported = append(rep.Unsupported, siteOf(fset, x.Pos(), rel)+": "+pp+"."+x.Sel.Name)
			case "path/filepath":
				switch x.Sel.Name {
				case "WalkDir", "Glob", "EvalSymlinks":
					rep.Unsupported = append(rep.Unsupported, siteOf(fset, x.Pos(), rel)+": "+pp+"."+x.Sel.Name)
				}
			case "github.com/bmatcuk/doublestar/v4":
				switch x.Sel.Name {
				case "Glob", "GlobWalk", "FilepathGlob":
					rep.Unsupported = append(rep.Unsupported, siteOf(fset, x.Pos(), rel)+": "+pp+"."+x.Sel.Name)
				}
			}
		}
		return true
	})
}

var tmpN int

func rewriteGo(fset *token.FileSet, g *ast.GoStmt, info *types.Info, rel string) ast.Stmt {
	site := siteOf(fset, g.Pos(), rel)
	rep.Rewrites["go"]++
	rep.GoSites = append(rep.GoSites, site)
	call := g.Call
	var lhs, rhs []ast.Expr
	hoist := func(e ast.Expr) ast.Expr {
		tmpN++
		id := ast.NewIdent("__verif_a" + strconv.Itoa(tmpN))
		lhs = append(lhs, id)
		rhs = append(rhs, e)
		return ast.NewIdent(id.Name)
	}
	newCall := &ast.CallExpr{Fun: call.Fun, Ellipsis: call.Ellipsis}
	// receiver of a method value is evaluated at the go statement
	if se, ok := call.Fun.(*ast.SelectorExpr); ok && pkgPathOf(info, se.X) == "" {
		if tv, ok := info.Types[se.X]; ok && tv.IsValue() {
			newCall.Fun = &ast.SelectorExpr{X: hoist(se.X), Sel: se.Sel}
		}
	}
	multi := false
	if len(call.Args) == 1 {
		if t, ok := info.TypeOf(call.Args[0]).(*types.Tuple); ok && t.Len() > 1 {
			multi = true
		}
	}
	for _, a := range call.Args {
		if multi {
			newCall.Args = append(newCall.Args, a)
			continue
		}
		if tv, ok := info.Types[a]; ok && tv.Value != nil {
			newCall.Args = append(newCall.Args, a) // constant
			continue
		}
		if tv, ok := info.Types[a]; ok && tv.IsNil() {
			newCall.Args = append(newCall.Args, a)
			continue
		}
		newCall.Args = append(newCall.Args, hoist(a))
	}
	if call.Ellipsis != token.NoPos {
		newCall.Ellipsis = 1
	}
	closure := &ast.FuncLit{
		Type: &ast.FuncType{Params: &ast.FieldList{}},
		Body: &ast.BlockStmt{List: []ast.Stmt{&ast.ExprStmt{X: newCall}}},
	}
	goCall := &ast.ExprStmt{X: &ast.CallExpr{Fun: sel("simrt", "Go"), Args: []ast.Expr{strLit(site), closure}}}
	if len(lhs) == 0 {
		return goCall
	}
	return &ast.BlockStmt{List: []ast.Stmt{
		&ast.AssignStmt{Lhs: lhs, Tok: token.DEFINE, Rhs: rhs},
		goCall,
	}}
}

func importName(spec *ast.ImportSpec) string {
	if spec.Name != nil {
		return spec.Name.Name
	}
	p, _ := strconv.Unquote(spec.Path.Value)
	base := p[strings.LastIndex(p, "/")+1:]
	if len(base) > 1 && base[0] == 'v' {
		if _, err := strconv.Atoi(base[1:]); err == nil {
			rest := p[:strings.LastIndex(p, "/")]
			base = rest[strings.LastIndex(rest, "/")+1:]
		}
	}
	// go.lsp.dev/jsonrpc2, go.lsp.dev/uri etc. all follow the last-element rule
	return base
}

func fixImports(f *ast.File) {
	used := map[string]bool{}
	ast.Inspect(f, func(n ast.Node) bool {
		if se, ok := n.(*ast.SelectorExpr); ok {
			if id, ok := se.X.(*ast.Ident); ok {
				used[id.Name] = true
			}
		}
		return true
	})
	have := map[string]bool{}
	for _, d := range f.Decls {
		gd, ok := d.(*ast.GenDecl)
		if !ok || gd.Tok != token.IMPORT {
			continue
		}
		var keep []ast.Spec
		for _, sp := range gd.Specs {
			is := sp.(*ast.ImportSpec)
			name := importName(is)
			if name == "_" || name == "." || used[name] {
				keep = append(keep, sp)
				have[name] = true
			}
		}
		gd.Specs = keep
	}
	var add []ast.Spec
	for _, sim := range []string{"simrt", "simsync", "simfs", "simclock", "simexec"} {
		if used[sim] && !have[sim] {
			add = append(add, &ast.ImportSpec{Path: strLit(simBase + sim)})
		}
	}
	// drop empty import decls, then prepend ours
	var decls []ast.Decl
	for _, d := range f.Decls {
		if gd, ok := d.(*ast.GenDecl); ok && gd.Tok == token.IMPORT && len(gd.Specs) == 0 {
			continue
		}
		decls = append(decls, d)
	}
	if len(add) > 0 {
		gd := &ast.GenDecl{Tok: token.IMPORT, Lparen: 1, Specs: add, Rparen: 1}
		decls = append([]ast.Decl{gd}, decls...)
	}
	f.Decls = decls
	// f.Imports is used by the printer only for sorting; rebuild it
	f.Imports = nil
	for _, d := range f.Decls {
		if gd, ok := d.(*ast.GenDecl); ok && gd.Tok == token.IMPORT {
			for _, sp := range gd.Specs {
				f.Imports = append(f.Imports, sp.(*ast.ImportSpec))
			}
		}
	}
}

func render(fset *token.FileSet, f *ast.File) []byte {
	// Comments are dropped: new nodes have no positions and go/printer places
	// comments by position.  The repository uses no //go: directives or build
	// constraints in non-test files (checked below).
	for _, cg := range f.Comments {
		for _, c := range cg.List {
			if strings.HasPrefix(c.Text, "//go:") || strings.HasPrefix(c.Text, "// +build") || strings.HasPrefix(c.Text, "//export") {
				rep.Unsupported = append(rep.Unsupported, fset.Position(c.Pos()).String()+": compiler directive "+c.Text)
			}
		}
	}
	f.Comments = nil
	f.Doc = nil
	ast.Inspect(f, func(n ast.Node) bool {
		switch x := n.(type) {
		case *ast.FuncDecl:
			x.Doc = nil
		case *ast.GenDecl:
			x.Doc = nil
		case *ast.Field:
			x.Doc, x.Comment = nil, nil
		case *ast.TypeSpec:
			x.Doc, x.Comment = nil, nil
		case *ast.ValueSpec:
			x.Doc, x.Comment = nil, nil
		case *ast.ImportSpec:
			x.Doc, x.Comment = nil, nil
		}
		return true
	})
	var buf bytes.Buffer
	if err := format.Node(&buf, fset, f); err != nil {
		fatal("print: %v", err)
	}
	// re-parse as a sanity check and normalise formatting
	src, err := format.Source(buf.Bytes())
	if err != nil {
		fatal("generated code does not parse: %v\n%s", err, buf.String())
	}
	return src
}

func writeFile(fset *token.FileSet, f *ast.File, name string) {
	src := render(fset, f)
	hdr := []byte("// Code rewritten by /verif/tools/instrument (scratch copy only). DO NOT EDIT.\n\n")
	if err := os.WriteFile(name, append(hdr, src...), 0o644); err != nil {
		fatal("write %s: %v", name, err)
	}
}

// writeGenerated emits cmd/<x>/<file>.go as package simwire under
// internal/verifsim/simwire, with func main renamed so that the dispatcher type
// and its constructor become importable by the simulation.
func writeGenerated(fset *token.FileSet, f *ast.File, abs, rel string) {
	// deep copy through print + parse so that the original AST stays intact
	var buf bytes.Buffer
	cf := *f
	cf.Comments = nil
	if err := format.Node(&buf, fset, &cf); err != nil {
		fatal("print %s: %v", rel, err)
	}
	nfset := token.NewFileSet()
	nf, err := parser.ParseFile(nfset, rel, buf.Bytes(), parser.SkipObjectResolution)
	if err != nil {
		fatal("re-parse %s: %v\n%s", rel, err, buf.String())
	}
	nf.Name = ast.NewIdent("simwire")
	for _, d := range nf.Decls {
		if fd, ok := d.(*ast.FuncDecl); ok && fd.Recv == nil && fd.Name.Name == "main" {
			fd.Name = ast.NewIdent("OriginalMain")
		}
	}
	fixImports(nf)
	outDir := filepath.Join(abs, "internal", "verifsim", "simwire")
	os.MkdirAll(outDir, 0o755)
	base := strings.TrimSuffix(filepath.Base(rel), ".go")
	out := filepath.Join(outDir, "gen_"+base+".go")
	src := render(nfset, nf)
	hdr := []byte("// Code generated by /verif/tools/instrument from " + rel + ". DO NOT EDIT.\n\n//go:build verifsim\n\n")
	if err := os.WriteFile(out, append(hdr, src...), 0o644); err != nil {
		fatal("write %s: %v", out, err)
	}
	rep.Rewrites["generated-dispatcher"]++
	// The simulated session builds its handler the way func main does.  Trees
	// whose main.go has a constructor newHandler(srv) use it verbatim; trees
	// without one fall back to protocol.ServerHandler over the dispatcher.
	hasNewHandler := false
	for _, d := range nf.Decls {
		if fd, ok := d.(*ast.FuncDecl); ok && fd.Recv == nil && fd.Name.Name == "newHandler" && fd.Type.Params != nil && len(fd.Type.Params.List) == 1 {
			hasNewHandler = true
		}
	}
	body := "protocol.ServerHandler(newServerDispatcher(srv), nil)"
	if hasNewHandler {
		body = "newHandler(srv)"
		rep.Rewrites["generated-handler-from-main"]++
	}
	shim := "// Code generated by /verif/tools/instrument. DO NOT EDIT.\n\n//go:build verifsim\n\npackage simwire\n\nimport (\n\t\"go.lsp.dev/jsonrpc2\"\n\t\"go.lsp.dev/protocol\"\n\n\t\"github.com/juev/hledger-lsp/internal/server\"\n)\n\nvar _ = protocol.ServerHandler\n\nfunc buildHandler(srv *server.Server) jsonrpc2.Handler {\n\treturn " + body + "\n}\n"
	if base == "main" {
		if err := os.WriteFile(filepath.Join(outDir, "gen_handler.go"), []byte(shim), 0o644); err != nil {
			fatal("write gen_handler.go: %v", err)
		}
	}
}

// writeServerHooks adds a verifsim-tagged file to package server (scratch copy
// only) that lets the harness give every simulated server instance its own
// semantic-token cache: `tokenCache` is process-global, and a reference server
// living in the same process must not share it with the system under test.
func writeServerHooks(fset *token.FileSet, files []*ast.File, info *types.Info, dir string) {
	var initExpr ast.Expr
	for _, f := range files {
		for _, d := range f.Decls {
			gd, ok := d.(*ast.GenDecl)
			if !ok || gd.Tok != token.VAR {
				continue
			}
			for _, sp := range gd.Specs {
				vs := sp.(*ast.ValueSpec)
				for i, n := range vs.Names {
					if n.Name == "tokenCache" && i < len(vs.Values) {
						initExpr = vs.Values[i]
					}
				}
			}
		}
	}
	var buf bytes.Buffer
	buf.WriteString("// Code generated by /verif/tools/instrument. DO NOT EDIT.\n\n//go:build verifsim\n\npackage server\n\n")
	if initExpr == nil {
		rep.Notes = append(rep.Notes, "package server has no initialised tokenCache variable: per-instance token cache hook is a no-op")
		buf.WriteString("func VerifFreshTokenCache() any { return nil }\nfunc VerifSwapTokenCache(n any) any { return nil }\n")
	} else {
		t := info.TypeOf(initExpr)
		ts := types.TypeString(t, func(p *types.Package) string {
			if strings.HasSuffix(p.Path(), "/internal/server") {
				return ""
			}
			return p.Name()
		})
		var eb bytes.Buffer
		format.Node(&eb, fset, initExpr)
		imports := ""
		if strings.Contains(eb.String(), "protocol.") || strings.Contains(ts, "protocol.") {
			imports = "import \"go.lsp.dev/protocol\"\n\n"
		}
		buf.WriteString(imports)
		fmt.Fprintf(&buf, "func VerifFreshTokenCache() any { return %s }\n\n", eb.String())
		fmt.Fprintf(&buf, "func VerifSwapTokenCache(n any) any {\n\told := tokenCache\n\tif n != nil {\n\t\ttokenCache = n.(%s)\n\t}\n\treturn old\n}\n", ts)
		rep.Rewrites["hook.tokenCache"]++
	}
	src, err := format.Source(buf.Bytes())
	if err != nil {
		fatal("server hooks do not parse: %v\n%s", err, buf.String())
	}
	if err := os.WriteFile(filepath.Join(dir, "verif_hooks_gen.go"), src, 0o644); err != nil {
		fatal("write hooks: %v", err)
	}
}
