module verif/tools

go 1.24
