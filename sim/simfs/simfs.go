// Package simfs is the simulated disk and process environment.  The real disk
// is never touched: os.Stat / os.ReadFile / os.Getenv / os.UserHomeDir /
// filepath.Walk / doublestar.FilepathGlob calls of the system under test are
// rewritten to the functions of this package.  Every call is a preemption
// point, is executed on the scheduler goroutine against the active Disk, may be
// hit by a fault, and is logged with its outcome.
package simfs

import (
	"errors"
	"io"
	"io/fs"
	"os"
	"path"
	"path/filepath"
	"sort"
	"strings"
	"syscall"
	"testing/fstest"
	"time"

	"github.com/bmatcuk/doublestar/v4"

	"github.com/juev/hledger-lsp/internal/verifsim/simrt"
)

// Node is a file or directory of the simulated disk.
type Node struct {
	Dir  bool
	Data []byte
	Mod  int64
}

// FaultKind enumerates one-shot faults decided per call by Disk.Fault.
type FaultKind int

const (
	FNone      FaultKind = iota
	FEnoent              // this call sees the path as missing
	FEio                 // ReadFile fails with EIO
	FTorn                // ReadFile returns a prefix (Arg = bytes kept)
	FStatSmall           // Stat reports size 0 (file grows between stat and read)
	FDelAfter            // the file is deleted right after this call returned
)

type Fault struct {
	Kind FaultKind
	Arg  int
}

// CallRec is one disk call as the system under test saw it.
type CallRec struct {
	Idx   int
	Task  int
	Op    string
	Path  string
	Err   int // ErrData code, 0 = ok
	Size  int // bytes returned / size reported
	Fault FaultKind
	Names []string // glob: the raw match list returned
}

// Disk is the whole simulated disk + environment.  It is owned by the
// scheduler goroutine.
type Disk struct {
	Files   map[string]*Node
	Env     map[string]string
	BadRead map[string]bool // sticky: ReadFile fails with EIO, Stat succeeds
	Calls   int
	// Fault, when set, decides a one-shot fault for call number idx.
	Fault func(op, p string, idx int) Fault
	// Trace, when non-nil, collects every call.
	Trace     *[]CallRec
	KeepTrace bool
	Fired     map[string]int
	Now       int64
}

func NewDisk() *Disk {
	return &Disk{Files: map[string]*Node{"/": {Dir: true}}, Env: map[string]string{}, BadRead: map[string]bool{}, Fired: map[string]int{}}
}

// Clone copies the disk state (not the fault hook, trace or counters).
func (d *Disk) Clone() *Disk {
	c := NewDisk()
	for p, n := range d.Files {
		c.Files[p] = &Node{Dir: n.Dir, Data: n.Data, Mod: n.Mod}
	}
	for k, v := range d.Env {
		c.Env[k] = v
	}
	for k, v := range d.BadRead {
		c.BadRead[k] = v
	}
	c.Now = d.Now
	return c
}

func (d *Disk) mkParents(p string) {
	for dir := path.Dir(p); ; dir = path.Dir(dir) {
		if n, ok := d.Files[dir]; !ok || !n.Dir {
			d.Files[dir] = &Node{Dir: true}
		}
		if dir == "/" || dir == "." {
			return
		}
	}
}

// WriteFile creates or replaces a file (harness side).
func (d *Disk) WriteFile(p string, data []byte) {
	p = path.Clean(p)
	d.mkParents(p)
	d.Now++
	d.Files[p] = &Node{Data: append([]byte(nil), data...), Mod: d.Now}
}

// Mkdir creates a directory (harness side).
func (d *Disk) Mkdir(p string) {
	p = path.Clean(p)
	d.mkParents(p)
	d.Files[p] = &Node{Dir: true}
}

// Remove deletes a file or a directory tree (harness side).
func (d *Disk) Remove(p string) {
	p = path.Clean(p)
	delete(d.Files, p)
	pre := p + "/"
	for q := range d.Files {
		if strings.HasPrefix(q, pre) {
			delete(d.Files, q)
		}
	}
}

// Read returns the content of a regular file (harness side; no faults, no log).
func (d *Disk) Read(p string) ([]byte, bool) {
	n, ok := d.Files[path.Clean(p)]
	if !ok || n.Dir {
		return nil, false
	}
	return n.Data, true
}

// Paths lists all regular files, sorted.
func (d *Disk) Paths() []string {
	var out []string
	for p, n := range d.Files {
		if !n.Dir {
			out = append(out, p)
		}
	}
	sort.Strings(out)
	return out
}

// Active is the disk that calls of the system under test are routed to.
var Active = NewDisk()

const (
	eNOENT  = 1
	eIO     = 2
	eISDIR  = 3
	eNOTDIR = 4
)

func (d *Disk) rec(op, p string, errc, size int, f FaultKind) {
	if f != FNone {
		d.Fired[faultName(f)]++
	}
	if d.Trace != nil {
		*d.Trace = append(*d.Trace, CallRec{Idx: d.Calls, Task: simrt.CurrentTaskID(), Op: op, Path: p, Err: errc, Size: size, Fault: f})
	}
	d.Calls++
}

func faultName(f FaultKind) string {
	switch f {
	case FEnoent:
		return "enoent-oneshot"
	case FEio:
		return "eio-oneshot"
	case FTorn:
		return "torn"
	case FStatSmall:
		return "toctou-grow"
	case FDelAfter:
		return "toctou-del"
	}
	return "none"
}

func (d *Disk) fault(op, p string) Fault {
	if d.Fault == nil {
		return Fault{}
	}
	return d.Fault(op, p, d.Calls)
}

// lookup resolves p; a path component that is a regular file yields ENOTDIR.
func (d *Disk) lookup(p string) (*Node, int) {
	p = path.Clean(p)
	if !strings.HasPrefix(p, "/") {
		p = "/" + p
	}
	n, ok := d.Files[p]
	if ok {
		return n, 0
	}
	for dir := path.Dir(p); dir != "/" && dir != "."; dir = path.Dir(dir) {
		if pn, ok := d.Files[dir]; ok && !pn.Dir {
			return nil, eNOTDIR
		}
	}
	return nil, eNOENT
}

func (d *Disk) stat(p string) *simrt.Resp {
	f := d.fault("stat", p)
	n, ec := d.lookup(p)
	if f.Kind == FEnoent {
		n, ec = nil, eNOENT
	}
	if n == nil {
		d.rec("stat", p, ec, 0, f.Kind)
		return &simrt.Resp{Err: &simrt.ErrData{Code: ec, Op: "stat", Path: p}}
	}
	fi := simrt.FileInfoData{Name: path.Base(p), Size: int64(len(n.Data)), IsDir: n.Dir, ModNano: n.Mod}
	if f.Kind == FStatSmall && !n.Dir {
		fi.Size = 0
	}
	d.rec("stat", p, 0, int(fi.Size), f.Kind)
	if f.Kind == FDelAfter && !n.Dir {
		d.Remove(p)
	}
	return &simrt.Resp{FI: []simrt.FileInfoData{fi}}
}

func (d *Disk) readFile(p string) *simrt.Resp {
	f := d.fault("read", p)
	n, ec := d.lookup(p)
	if f.Kind == FEnoent {
		n, ec = nil, eNOENT
	}
	if n == nil {
		d.rec("read", p, ec, 0, f.Kind)
		return &simrt.Resp{Err: &simrt.ErrData{Code: ec, Op: "open", Path: p}}
	}
	if n.Dir {
		d.rec("read", p, eISDIR, 0, f.Kind)
		return &simrt.Resp{Err: &simrt.ErrData{Code: eISDIR, Op: "read", Path: p}}
	}
	if d.BadRead[path.Clean(p)] || f.Kind == FEio {
		d.rec("read", p, eIO, 0, f.Kind)
		return &simrt.Resp{Err: &simrt.ErrData{Code: eIO, Op: "read", Path: p}}
	}
	data := n.Data
	if f.Kind == FTorn {
		k := f.Arg
		if k > len(data) {
			k = len(data)
		}
		data = data[:k]
	}
	out := make([]byte, len(data))
	copy(out, data)
	d.rec("read", p, 0, len(out), f.Kind)
	if f.Kind == FDelAfter {
		d.Remove(p)
	}
	if out == nil {
		out = []byte{}
	}
	return &simrt.Resp{Bs: out, B: true}
}

func (d *Disk) walk(root string) *simrt.Resp {
	root = filepath.Clean(root)
	var out []simrt.FileInfoData
	n, ec := d.lookup(root)
	if n == nil {
		d.rec("walk", root, ec, 0, FNone)
		return &simrt.Resp{FI: []simrt.FileInfoData{{Path: root, Err: &simrt.ErrData{Code: ec, Op: "lstat", Path: root}}}}
	}
	var rec func(p string, n *Node)
	rec = func(p string, n *Node) {
		out = append(out, simrt.FileInfoData{Path: p, Name: path.Base(p), Size: int64(len(n.Data)), IsDir: n.Dir, ModNano: n.Mod})
		if !n.Dir {
			return
		}
		var kids []string
		pre := p
		if pre != "/" {
			pre += "/"
		}
		for q := range d.Files {
			if q != p && strings.HasPrefix(q, pre) && !strings.Contains(q[len(pre):], "/") {
				kids = append(kids, q)
			}
		}
		sort.Strings(kids)
		for _, k := range kids {
			rec(k, d.Files[k])
		}
	}
	rec(root, n)
	d.rec("walk", root, 0, len(out), FNone)
	return &simrt.Resp{FI: out}
}

func (d *Disk) mapFS(base string) fstest.MapFS {
	m := fstest.MapFS{}
	base = path.Clean(base)
	pre := base
	if pre != "/" {
		pre += "/"
	}
	for p, n := range d.Files {
		if p == base || !strings.HasPrefix(p, pre) {
			continue
		}
		rel := p[len(pre):]
		if n.Dir {
			m[rel] = &fstest.MapFile{Mode: fs.ModeDir | 0o755}
		} else {
			m[rel] = &fstest.MapFile{Data: n.Data, Mode: 0o644}
		}
	}
	return m
}

func (d *Disk) glob(pattern string) *simrt.Resp {
	matches, err := d.globImpl(pattern)
	if err != nil {
		d.rec("glob", pattern, 8, 0, FNone)
		return &simrt.Resp{Err: &simrt.ErrData{Code: 9, Msg: err.Error()}}
	}
	d.rec("glob", pattern, 0, len(matches), FNone)
	if d.Trace != nil && len(*d.Trace) > 0 {
		(*d.Trace)[len(*d.Trace)-1].Names = append([]string(nil), matches...)
	}
	if matches == nil {
		return &simrt.Resp{}
	}
	return &simrt.Resp{Ss: matches, B: true}
}

// globImpl mirrors doublestar.FilepathGlob (v4.9.2) over the simulated disk:
// clean, split into base and pattern, run the real doublestar matcher over an
// fs.FS view of the base directory, join.
func (d *Disk) globImpl(pattern string) ([]string, error) {
	if pattern == "" {
		return nil, nil
	}
	pattern = filepath.ToSlash(filepath.Clean(pattern))
	base, f := doublestar.SplitPattern(pattern)
	if f == "" || f == "." || f == ".." {
		if !doublestar.ValidatePathPattern(pattern) {
			return nil, doublestar.ErrBadPattern
		}
		if n, _ := d.lookup(pattern); n == nil {
			return nil, nil
		}
		return []string{pattern}, nil
	}
	if !strings.HasPrefix(base, "/") {
		base = "/" + base
	}
	if n, _ := d.lookup(base); n == nil || !n.Dir {
		// os.DirFS on a missing directory: every open fails; Glob ignores IO errors
		if !doublestar.ValidatePattern(f) {
			return nil, doublestar.ErrBadPattern
		}
		return nil, nil
	}
	matches, err := doublestar.Glob(d.mapFS(base), f)
	if err != nil {
		return nil, err
	}
	for i := range matches {
		matches[i] = filepath.FromSlash(path.Join(base, matches[i]))
	}
	return matches, nil
}

// ---- task side ------------------------------------------------------------------

func toErr(e *simrt.ErrData) error {
	if e == nil {
		return nil
	}
	var inner error
	switch e.Code {
	case eNOENT:
		inner = syscall.ENOENT
	case eIO:
		inner = syscall.EIO
	case eISDIR:
		inner = syscall.EISDIR
	case eNOTDIR:
		inner = syscall.ENOTDIR
	case 9:
		if e.Msg == doublestar.ErrBadPattern.Error() {
			return doublestar.ErrBadPattern
		}
		return errors.New(e.Msg)
	default:
		inner = errors.New(e.Msg)
	}
	return &fs.PathError{Op: e.Op, Path: e.Path, Err: inner}
}

type fileInfo struct{ d simrt.FileInfoData }

func (f fileInfo) Name() string { return f.d.Name }
func (f fileInfo) Size() int64  { return f.d.Size }
func (f fileInfo) Mode() fs.FileMode {
	if f.d.IsDir {
		return fs.ModeDir | 0o755
	}
	return 0o644
}
func (f fileInfo) ModTime() time.Time { return time.Unix(0, f.d.ModNano) }
func (f fileInfo) IsDir() bool        { return f.d.IsDir }
func (f fileInfo) Sys() any           { return nil }

func Stat(name string) (os.FileInfo, error) {
	r := simrt.Env("fs.stat", name, func() *simrt.Resp { return Active.stat(name) })
	if r.Err != nil {
		return nil, toErr(r.Err)
	}
	return fileInfo{r.FI[0]}, nil
}

func Lstat(name string) (os.FileInfo, error) { return Stat(name) }

func ReadFile(name string) ([]byte, error) {
	r := simrt.Env("fs.read", name, func() *simrt.Resp { return Active.readFile(name) })
	if r.Err != nil {
		return nil, toErr(r.Err)
	}
	if r.Bs == nil {
		return []byte{}, nil
	}
	return r.Bs, nil
}

func Getenv(key string) string {
	r := simrt.Env("env.get", key, func() *simrt.Resp { return &simrt.Resp{S: Active.Env[key]} })
	return r.S
}

func LookupEnv(key string) (string, bool) {
	r := simrt.Env("env.get", key, func() *simrt.Resp {
		v, ok := Active.Env[key]
		return &simrt.Resp{S: v, B: ok}
	})
	return r.S, r.B
}

func UserHomeDir() (string, error) {
	h := Getenv("HOME")
	if h == "" {
		return "", errors.New("$HOME is not defined")
	}
	return h, nil
}

func Abs(p string) (string, error) {
	if filepath.IsAbs(p) {
		return filepath.Clean(p), nil
	}
	return filepath.Join("/", p), nil
}

// Walk mirrors filepath.Walk over the simulated disk (lexical order, SkipDir
// and SkipAll honoured).
func Walk(root string, fn filepath.WalkFunc) error {
	r := simrt.Env("fs.walk", root, func() *simrt.Resp { return Active.walk(root) })
	skip := ""
	for i := range r.FI {
		e := r.FI[i]
		if skip != "" && (e.Path == skip || strings.HasPrefix(e.Path, skip+"/")) {
			continue
		}
		skip = ""
		var err error
		if e.Err != nil {
			err = fn(e.Path, nil, toErr(e.Err))
		} else {
			err = fn(e.Path, fileInfo{e}, nil)
		}
		if err != nil {
			if errors.Is(err, filepath.SkipDir) {
				if e.IsDir {
					if i == 0 {
						return nil
					}
					skip = e.Path
				} else {
					skip = path.Dir(e.Path)
					// skipping the rest of the directory: entries already
					// visited are unaffected, deeper ones share the prefix
				}
				continue
			}
			if errors.Is(err, filepath.SkipAll) {
				return nil
			}
			return err
		}
	}
	return nil
}

// FilepathGlob mirrors doublestar.FilepathGlob.
func FilepathGlob(pattern string, opts ...doublestar.GlobOption) ([]string, error) {
	r := simrt.Env("fs.glob", pattern, func() *simrt.Resp { return Active.glob(pattern) })
	if r.Err != nil {
		return nil, toErr(r.Err)
	}
	return r.Ss, nil
}

// Stderr is a sink for debug output of the instrumented tree.
var Stderr io.Writer = io.Discard
