package simrt

import (
	"crypto/sha256"
	"encoding/hex"
	"hash"
	"strconv"
)

// Log is the event log of one run.  Its fingerprint is the identity of the
// execution: same choice list + same code => same fingerprint.  Logging never
// draws a choice and never reads a clock.
type Log struct {
	h     hash.Hash
	N     int
	keep  bool
	Lines []string
	// Sig accumulates the schedule signature: (task kind, request kind, site)
	// of scheduler steps, without payload hashes.
	sig hash.Hash
}

func NewLog(keep bool) *Log {
	return &Log{h: sha256.New(), sig: sha256.New(), keep: keep}
}

// Ev records one event.
func (l *Log) Ev(task int, kind, site, detail string) {
	l.N++
	line := strconv.Itoa(l.N) + " T" + strconv.Itoa(task) + " " + kind + " " + site + " " + detail
	l.h.Write([]byte(line))
	l.h.Write([]byte{'\n'})
	l.sig.Write([]byte(strconv.Itoa(task) + kind + site + "\n"))
	if l.keep {
		l.Lines = append(l.Lines, line)
	}
}

// Note records a harness-level event (client operation, oracle verdict).
func (l *Log) Note(kind, detail string) { l.Ev(-1, kind, "", detail) }

func (l *Log) Fingerprint() string { return hex.EncodeToString(l.h.Sum(nil))[:32] }
func (l *Log) Signature() string   { return hex.EncodeToString(l.sig.Sum(nil))[:16] }
