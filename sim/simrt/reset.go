package simrt

// Package-level variables of the system under test are process-global state:
// every simulated run (and every server instance inside a run) would otherwise
// see what earlier runs left in them, and a failure would depend on the runs
// that happened to precede it in the same worker process.  The instrumenter
// appends, to every file that declares package-level variables, an init
// function that registers a closure re-running their initialisers; the runner
// calls ResetGlobals before every run.
var resets []func()

// RegisterReset is called from generated init functions.
func RegisterReset(f func()) { resets = append(resets, f) }

// ResetGlobals re-initialises every registered package-level variable.
func ResetGlobals() {
	for _, f := range resets {
		f()
	}
}
