package simrt

// Package-level variables of the system under test are process-global state.
// Left alone, every simulated run - and every server instance inside a run,
// the reference servers included - would share them: a failure would depend on
// the runs that happened to precede it in the same worker process, and a cache
// that a change keeps in a package variable would be shared between the system
// under test and the fresh reference it is compared with.  The instrumenter
// therefore appends, to every file that declares package-level variables, an
// init function that registers each variable here; the runner calls
// ResetGlobals before every run, and every simulated server instance switches
// to its own copy of all of them when it becomes active (ActivateGlobals).
type global struct {
	save   func() any
	load   func(any)
	reinit func()
}

var (
	globals     []global
	globalStore = map[any][]any{}
	globalCur   any
)

// RegisterVar is called from generated init functions: p is the address of a
// package-level variable, reinit re-runs its initialiser.
func RegisterVar[T any](p *T, reinit func()) {
	globals = append(globals, global{
		save:   func() any { return *p },
		load:   func(x any) { *p = x.(T) },
		reinit: reinit,
	})
}

// ResetGlobals re-initialises every registered variable and forgets all
// per-instance copies.
func ResetGlobals() {
	for _, g := range globals {
		g.reinit()
	}
	globalStore = map[any][]any{}
	globalCur = nil
}

// ActivateGlobals makes the copies that belong to instance key current; an
// instance seen for the first time starts from freshly initialised variables.
func ActivateGlobals(key any) {
	if key == globalCur || len(globals) == 0 {
		return
	}
	if globalCur != nil {
		vals := make([]any, len(globals))
		for i, g := range globals {
			vals[i] = g.save()
		}
		globalStore[globalCur] = vals
	}
	if vals, ok := globalStore[key]; ok {
		for i, g := range globals {
			g.load(vals[i])
		}
	} else {
		for _, g := range globals {
			g.reinit()
		}
	}
	globalCur = key
}
