//go:build !race

package simrt

import "unsafe"

// RaceBuild reports whether this binary was built with -race.
const RaceBuild = false

func raceDisable()                 {}
func raceEnable()                  {}
func raceAcquire(p unsafe.Pointer) {}
func raceRelease(p unsafe.Pointer) {}
