package simrt

import (
	"fmt"
	"iter"
	"sort"
)

// MapSeq is what `range m` over a map is rewritten to: the iteration order is
// canonical (sorted keys) permuted by a simulator decision, instead of the
// runtime's random order.  Entries deleted during the loop are skipped, as in
// Go; entries added during the loop are not visited (Go allows either).
func MapSeq[M ~map[K]V, K comparable, V any](m M, site string) iter.Seq2[K, V] {
	return func(yield func(K, V) bool) {
		if len(m) == 0 {
			return
		}
		keys := make([]K, 0, len(m))
		for k := range m {
			keys = append(keys, k)
		}
		sortKeys(keys)
		if len(keys) > 1 {
			if perm := MapPerm(site, len(keys)); perm != nil {
				pk := make([]K, len(keys))
				for i, j := range perm {
					pk[i] = keys[j]
				}
				keys = pk
			}
		}
		for _, k := range keys {
			v, ok := m[k]
			if !ok {
				continue
			}
			if !yield(k, v) {
				return
			}
		}
	}
}

// MapPerm asks the simulator for the permutation to apply at site.
func MapPerm(site string, n int) []int {
	if getCurTask() == nil {
		if s := getCurSched(); s != nil {
			return s.mapOrder(site, n)
		}
		if DirectMapOrder != nil {
			return DirectMapOrder(site, n)
		}
		return nil
	}
	s := getCurSched()
	r := Call(&Req{Kind: "maporder", Site: site, Atomic: true, Do: func() (*Resp, bool) {
		p := s.mapOrder(site, n)
		if p == nil {
			return nil, true
		}
		return &Resp{Is: p}, true
	}})
	if len(r.Is) != n {
		return nil
	}
	return r.Is
}

func sortKeys[K comparable](keys []K) {
	switch ks := any(keys).(type) {
	case []string:
		sort.Strings(ks)
	case []int:
		sort.Ints(ks)
	default:
		strs := make([]string, len(keys))
		for i, k := range keys {
			strs[i] = fmt.Sprintf("%T:%v", k, k)
		}
		idx := make([]int, len(keys))
		for i := range idx {
			idx[i] = i
		}
		sort.SliceStable(idx, func(a, b int) bool { return strs[idx[a]] < strs[idx[b]] })
		out := make([]K, len(keys))
		for i, j := range idx {
			out[i] = keys[j]
		}
		copy(keys, out)
	}
}

// PermFromHash derives a permutation of n from a 64-bit value (used by engines
// to implement MapOrder from a per-run salt).
func PermFromHash(h uint64, n int) []int {
	p := make([]int, n)
	for i := range p {
		p[i] = i
	}
	x := h | 1
	for i := n - 1; i > 0; i-- {
		x ^= x << 13
		x ^= x >> 7
		x ^= x << 17
		j := int(x % uint64(i+1))
		p[i], p[j] = p[j], p[i]
	}
	return p
}

// HashSite mixes a salt, a site name and a call counter.
func HashSite(salt uint64, site string, nth int) uint64 {
	h := salt ^ 0xcbf29ce484222325
	for i := 0; i < len(site); i++ {
		h ^= uint64(site[i])
		h *= 1099511628211
	}
	h ^= uint64(nth) * 0x9e3779b97f4a7c15
	h ^= h >> 29
	h *= 0xbf58476d1ce4e5b9
	h ^= h >> 32
	return h
}
