package simrt

import (
	"strconv"
)

// Resp is the fixed-shape result of an environment operation.  It is produced
// on the scheduler goroutine and deep-copied by the receiving task in
// //go:norace code, so that no happens-before edge scheduler -> task is ever
// needed (see the package comment).
type Resp struct {
	I   int64
	J   int64
	B   bool
	S   string
	Bs  []byte
	Ss  []string
	Is  []int
	Err *ErrData
	FI  []FileInfoData
	// Detach: after replying, treat the task as blocked in an external call.
	Detach bool
}

// ErrData is a serialisable error description; the task side turns it into a
// real error value (simfs does that for *fs.PathError).
type ErrData struct {
	Code int // 1 ENOENT, 2 EIO, 3 EISDIR, 4 ENOTDIR, 5 EPIPE, 6 EOF, 7 exec-not-found, 8 other
	Op   string
	Path string
	Msg  string
}

type FileInfoData struct {
	Path    string // full path (Walk) or ""
	Name    string
	Size    int64
	IsDir   bool
	ModNano int64
	Err     *ErrData // per-entry error (Walk)
}

func (r *Resp) logDetail() string {
	if r == nil {
		return ""
	}
	d := ""
	if r.Err != nil {
		d = "err" + strconv.Itoa(r.Err.Code)
	}
	if r.Bs != nil {
		d += " b" + strconv.Itoa(len(r.Bs)) + ":" + strconv.FormatUint(hashBytes(r.Bs), 36)
	}
	if r.S != "" {
		d += " s:" + strconv.FormatUint(hashString(r.S), 36)
	}
	if len(r.Ss) > 0 {
		d += " n" + strconv.Itoa(len(r.Ss))
	}
	if len(r.Is) > 0 {
		d += " p"
		for _, x := range r.Is {
			d += strconv.Itoa(x) + ","
		}
	}
	if r.I != 0 {
		d += " i" + strconv.FormatInt(r.I, 10)
	}
	return d
}

func hashBytes(b []byte) uint64 {
	h := uint64(1469598103934665603)
	for _, c := range b {
		h ^= uint64(c)
		h *= 1099511628211
	}
	return h
}

func hashString(s string) uint64 {
	h := uint64(1469598103934665603)
	for i := 0; i < len(s); i++ {
		h ^= uint64(s[i])
		h *= 1099511628211
	}
	return h
}

//go:norace
func copyString(s string) string {
	if len(s) == 0 {
		return ""
	}
	b := make([]byte, len(s))
	for i := 0; i < len(s); i++ {
		b[i] = s[i]
	}
	return string(b)
}

//go:norace
func copyBytes(s []byte) []byte {
	if s == nil {
		return nil
	}
	b := make([]byte, len(s))
	for i := 0; i < len(s); i++ {
		b[i] = s[i]
	}
	return b
}

//go:norace
func copyErr(e *ErrData) *ErrData {
	if e == nil {
		return nil
	}
	return &ErrData{Code: e.Code, Op: copyString(e.Op), Path: copyString(e.Path), Msg: copyString(e.Msg)}
}

// copyResp deep-copies a response written by the scheduler goroutine without
// the race detector seeing the reads.
//
//go:norace
func copyResp(r *Resp) Resp {
	var out Resp
	if r == nil {
		return out
	}
	out.I = r.I
	out.J = r.J
	out.B = r.B
	out.S = copyString(r.S)
	out.Bs = copyBytes(r.Bs)
	if r.Ss != nil {
		out.Ss = make([]string, len(r.Ss))
		for i := 0; i < len(r.Ss); i++ {
			out.Ss[i] = copyString(r.Ss[i])
		}
	}
	if r.Is != nil {
		out.Is = make([]int, len(r.Is))
		for i := 0; i < len(r.Is); i++ {
			out.Is[i] = r.Is[i]
		}
	}
	out.Err = copyErr(r.Err)
	if r.FI != nil {
		out.FI = make([]FileInfoData, len(r.FI))
		for i := 0; i < len(r.FI); i++ {
			f := &r.FI[i]
			out.FI[i] = FileInfoData{Path: copyString(f.Path), Name: copyString(f.Name), Size: f.Size, IsDir: f.IsDir, ModNano: f.ModNano, Err: copyErr(f.Err)}
		}
	}
	return out
}
