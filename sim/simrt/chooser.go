package simrt

import (
	"math/rand/v2"
)

// Chooser is the single source of every decision of a simulated run: which
// task runs next, which client operation comes next, every generated value,
// every fault, every map permutation salt.  In search mode the values come
// from a PCG stream derived from (master seed, run index); in replay mode from
// a recorded list, with 0 as the fallback when the list is exhausted or a
// recorded value is out of range (that is what makes the list shrinkable).
type Chooser struct {
	rng    *rand.Rand
	replay []int
	useRec bool
	pos    int
	// Rec is the list of choices actually taken in this run.
	Rec []int
	// Ns[i] is the arity of choice i (for diagnostics and for shrinking).
	Ns []int
	// Overrun counts replay choices that fell back to 0.
	Overrun int
	// Trace, when non-nil, receives one line per choice.
	Trace func(label string, n, v int)
}

func mix(seed uint64, idx uint64) (uint64, uint64) {
	// splitmix64 over the pair, twice, to decorrelate neighbouring indices.
	z := seed + 0x9e3779b97f4a7c15*(idx+1)
	z = (z ^ (z >> 30)) * 0xbf58476d1ce4e5b9
	z = (z ^ (z >> 27)) * 0x94d049bb133111eb
	a := z ^ (z >> 31)
	z = a + 0x9e3779b97f4a7c15 + seed
	z = (z ^ (z >> 30)) * 0xbf58476d1ce4e5b9
	z = (z ^ (z >> 27)) * 0x94d049bb133111eb
	b := z ^ (z >> 31)
	return a, b
}

// NewSearchChooser derives the stream of run idx of master seed seed.
func NewSearchChooser(seed, idx uint64) *Chooser {
	a, b := mix(seed, idx)
	return &Chooser{rng: rand.New(rand.NewPCG(a, b))}
}

// NewReplayChooser replays a recorded choice list.
func NewReplayChooser(list []int) *Chooser {
	return &Chooser{replay: list, useRec: true}
}

// Choose returns a value in [0,n).  n <= 1 returns 0 without consuming a
// choice, so that degenerate decision points cost nothing in the list.
func (c *Chooser) Choose(label string, n int) int {
	if n <= 1 {
		return 0
	}
	var v int
	if c.useRec {
		if c.pos < len(c.replay) {
			v = c.replay[c.pos]
			if v < 0 || v >= n {
				v = 0
				c.Overrun++
			}
		} else {
			v = 0
			c.Overrun++
		}
		c.pos++
	} else {
		v = c.rng.IntN(n)
	}
	c.Rec = append(c.Rec, v)
	c.Ns = append(c.Ns, n)
	if c.Trace != nil {
		c.Trace(label, n, v)
	}
	return v
}

// Bool is Choose(label,2)==1.
func (c *Chooser) Bool(label string) bool { return c.Choose(label, 2) == 1 }

// Pct returns true with probability about pct/100 (0 is the simple choice: false).
func (c *Chooser) Pct(label string, pct int) bool {
	if pct <= 0 {
		return false
	}
	if pct >= 100 {
		return true
	}
	return c.Choose(label, 100) >= 100-pct
}

// Range returns a value in [lo,hi].
func (c *Chooser) Range(label string, lo, hi int) int {
	if hi <= lo {
		return lo
	}
	return lo + c.Choose(label, hi-lo+1)
}

// Perm returns a permutation of 0..n-1; the identity is the all-zero choice.
func (c *Chooser) Perm(label string, n int) []int {
	p := make([]int, n)
	for i := range p {
		p[i] = i
	}
	for i := 0; i < n-1; i++ {
		j := i + c.Choose(label, n-i)
		// rotate p[j] to position i, keeping the relative order of the rest
		x := p[j]
		copy(p[i+1:j+1], p[i:j])
		p[i] = x
	}
	return p
}

// Weighted picks an index with probability proportional to w[i] (w[i] >= 0).
// Index of the first positive weight is the all-zero choice.
func (c *Chooser) Weighted(label string, w []int) int {
	total := 0
	for _, x := range w {
		total += x
	}
	if total <= 0 {
		return 0
	}
	v := c.Choose(label, total)
	for i, x := range w {
		if v < x {
			return i
		}
		v -= x
	}
	return len(w) - 1
}
