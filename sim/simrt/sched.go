// Package simrt is the cooperative task runtime of the deterministic simulator.
//
// Exactly one task (goroutine of the system under test) runs at a time.  A
// running task hands control back to the scheduler at every call into the
// sim packages (locks, sync.Map, disk, clock, processes, transport, client
// calls, map-order requests, go statements).  The scheduler goroutine executes
// the environment side of each call (Req.Do) and decides, through the engine
// and ultimately through the Chooser, which task continues.
//
// Race-detector discipline (see DESIGN.md 3.6 and section 11): hand-offs are
// wrapped in RaceDisable/RaceEnable so that the channels used for them create
// no happens-before edges.  The only explicit edge is task -> scheduler
// (RaceRelease by the task, RaceAcquire by the scheduler); the scheduler never
// releases to a task.  Data flowing scheduler -> task is deep-copied on the
// task side by //go:norace code (resp.go).  Hence two tasks are ordered for
// the detector only by the synchronisation of the program itself.
package simrt

import (
	"fmt"
	"os"
	"regexp"
	"runtime"
	"runtime/debug"
	"sync/atomic"
	"time"
	"unsafe"
)

type State int

const (
	StParked  State = iota // has posted a request and waits to be stepped
	StRunning              // currently executing (at most one task)
	StExt                  // inside a really-blocking external call (client request)
	StDone
)

func (s State) String() string {
	switch s {
	case StParked:
		return "parked"
	case StRunning:
		return "running"
	case StExt:
		return "ext"
	case StDone:
		return "done"
	}
	return "?"
}

// Req is what a task posts when it yields.
type Req struct {
	Kind string // "yield", "lock", "fs.ReadFile", ... (log and signature only)
	Site string
	// Atomic requests are executed and the same task resumed without giving
	// any other task the chance to run (used while the task holds a real lock
	// of a dependency, e.g. jsonrpc2's writeMu around stream.Write).
	Atomic bool
	// Do runs on the scheduler goroutine when the task is stepped.  done=false
	// means the operation cannot complete now (lock held): the task stays
	// parked as blocked until Ready reports true.
	Do    func() (resp *Resp, done bool)
	Ready func() bool
	// CheckFirst makes Ready decide schedulability even before the first
	// attempt (transport reads: an empty inbound buffer is not a step).
	CheckFirst bool

	spawn   *Task
	extEnd  bool
	fin     bool
	panicV  string
	panicSt string
}

type Task struct {
	ID      int
	Name    string
	Site    string // spawn site
	s       *Sched
	wake    chan struct{}
	syncVar int64 // address used for RaceRelease/RaceAcquire only
	req     *Req  // mailbox, accessed through norace accessors only
	resp    *Resp // mailbox, accessed through norace accessors only

	// scheduler-owned
	State       State
	Blocked     bool // last attempt could not complete
	ExtReturned bool
	Steps       int
	Parent      int
}

func (t *Task) String() string { return fmt.Sprintf("T%d(%s)", t.ID, t.Name) }

// PanicInfo describes a panic that escaped a task.
type PanicInfo struct {
	Task  string
	Value string
	Stack string
}

type Sched struct {
	C      *Chooser
	Tasks  []*Task
	events chan *Task
	cur    *Task
	Steps  int
	Log    *Log
	Panics []PanicInfo

	// MapOrder decides the permutation of a map iteration of n keys at site.
	// nil or a nil result means canonical (sorted) order.
	MapOrder func(site string, n int) []int
	// OnStep, when set, is called after every executed request (for probes).
	OnStep func(t *Task, r *Req)

	// Stepping is the task whose request is being executed (scheduler side).
	Stepping *Task

	mapCalls map[string]int
	closed   bool
}

var heartbeat atomic.Int64
var watchdogOnce atomic.Bool

// WatchdogSeconds is the real-time budget without a scheduler event before
// the process exits with status 2 (harness trouble, never a verdict).
var WatchdogSeconds int64 = 120

func startWatchdog() {
	if !watchdogOnce.CompareAndSwap(false, true) {
		return
	}
	go func() {
		last := heartbeat.Load()
		idle := int64(0)
		for {
			time.Sleep(2 * time.Second)
			now := heartbeat.Load()
			if now == last && activeScheds.Load() > 0 {
				idle += 2
				if idle >= WatchdogSeconds {
					fmt.Fprintf(os.Stderr, "simrt: WATCHDOG: no scheduler event for %ds; goroutines:\n", idle)
					buf := make([]byte, 1<<20)
					n := runtime.Stack(buf, true)
					os.Stderr.Write(buf[:n])
					os.Exit(2)
				}
			} else {
				idle = 0
				last = now
			}
		}
	}()
}

var activeScheds atomic.Int64

func NewSched(c *Chooser, log *Log) *Sched {
	startWatchdog()
	if log == nil {
		log = NewLog(false)
	}
	return &Sched{C: c, events: make(chan *Task), Log: log, mapCalls: map[string]int{}}
}

// ---- global "current" pointers, read by tasks -------------------------------

var curSched *Sched
var curTask *Task

//go:norace
func setCur(s *Sched, t *Task) { curSched = s; curTask = t }

//go:norace
func getCurTask() *Task { return curTask }

//go:norace
func getCurSched() *Sched { return curSched }

//go:norace
func setReq(t *Task, r *Req) { t.req = r }

//go:norace
func getReq(t *Task) *Req { return t.req }

//go:norace
func setResp(t *Task, r *Resp) { t.resp = r }

//go:norace
func getResp(t *Task) *Resp { return t.resp }

// Activate makes s the scheduler that sim calls are routed to.  Called by the
// harness on the scheduler goroutine while every task of every other scheduler
// is parked.  Activate(nil) selects direct mode: sim calls execute inline on
// the calling goroutine (component engines, no concurrency).
func Activate(s *Sched) *Sched {
	old := getCurSched()
	setCur(s, nil)
	return old
}

// InTask reports whether the caller runs as a scheduled task.
func InTask() bool { return getCurTask() != nil }

// CurrentTaskID is used by sim packages for logging (-1 in direct mode).  On
// the scheduler goroutine, inside Req.Do, it is the task being stepped.
func CurrentTaskID() int {
	if t := getCurTask(); t != nil {
		return t.ID
	}
	if s := getCurSched(); s != nil && s.Stepping != nil {
		return s.Stepping.ID
	}
	return -1
}

// ---- task side ---------------------------------------------------------------

func (t *Task) call(r *Req) Resp {
	setReq(t, r)
	raceRelease(unsafe.Pointer(&t.syncVar))
	raceDisable()
	t.s.events <- t
	<-t.wake
	raceEnable()
	return copyResp(getResp(t))
}

// Call posts a request from the currently running task, or executes it inline
// in direct mode.
func Call(r *Req) Resp {
	t := getCurTask()
	if t == nil {
		if r.Do == nil {
			return Resp{}
		}
		resp, done := r.Do()
		if !done {
			panic("simrt: blocking operation in direct mode would deadlock: " + r.Kind + " at " + r.Site)
		}
		if resp == nil {
			return Resp{}
		}
		return *resp
	}
	return t.call(r)
}

// CallOn posts a request on behalf of a specific task handle (used by the
// transport's Read, which is only ever called by the dispatcher goroutine, and
// by the return path of external calls).
func CallOn(t *Task, r *Req) Resp { return t.call(r) }

// Yield is a plain preemption point.
func Yield(kind, site string) {
	if getCurTask() == nil {
		return
	}
	Call(&Req{Kind: kind, Site: site})
}

// Env runs fn on the scheduler goroutine at a preemption point (or inline in
// direct mode) and returns a deep copy of its result.
func Env(kind, site string, fn func() *Resp) Resp {
	return Call(&Req{Kind: kind, Site: site, Do: func() (*Resp, bool) { return fn(), true }})
}

// EnvAtomic is Env without a preemption opportunity.
func EnvAtomic(kind, site string, fn func() *Resp) Resp {
	return Call(&Req{Kind: kind, Site: site, Atomic: true, Do: func() (*Resp, bool) { return fn(), true }})
}

// Go is what every `go f(args)` statement of the system under test is
// rewritten to.  The new task is born parked.
func Go(site string, fn func()) {
	pt := getCurTask()
	if pt == nil {
		s := getCurSched()
		if s == nil {
			// direct mode: run to completion at the spawn point
			fn()
			return
		}
		// A go statement executed outside any task while a scheduler is
		// active: the harness itself is spawning (e.g. session start).
		t := s.newTask("task", site, -1)
		go t.main(fn)
		s.register(t)
		return
	}
	t := pt.s.newTaskFrom(pt, site)
	go t.main(fn)
	pt.call(&Req{Kind: "go", Site: site, spawn: t, Do: func() (*Resp, bool) { return nil, true }})
}

func (t *Task) main(fn func()) {
	raceDisable()
	<-t.wake
	raceEnable()
	defer func() {
		r := &Req{Kind: "done", fin: true}
		if pv := recover(); pv != nil {
			r.panicV = fmt.Sprint(pv)
			r.panicSt = CleanStack(string(debug.Stack()))
		}
		setReq(t, r)
		raceRelease(unsafe.Pointer(&t.syncVar))
		raceDisable()
		t.s.events <- t
		raceEnable()
	}()
	fn()
}

// newTaskFrom allocates a task record on the spawning task's goroutine.  Only
// immutable fields are set here; the scheduler fills in the rest on register.
func (s *Sched) newTaskFrom(parent *Task, site string) *Task {
	return &Task{Name: "bg", Site: site, s: s, wake: make(chan struct{}), Parent: parent.ID}
}

func (s *Sched) newTask(name, site string, parent int) *Task {
	return &Task{Name: name, Site: site, s: s, wake: make(chan struct{}), Parent: parent}
}

// ---- scheduler side ------------------------------------------------------------

func (s *Sched) register(t *Task) {
	t.ID = len(s.Tasks)
	t.State = StParked
	setReq(t, &Req{Kind: "start", Site: t.Site})
	s.Tasks = append(s.Tasks, t)
	s.Log.Ev(t.ID, "spawn", t.Site, "")
}

// NewExternalTask creates the record for a goroutine that is started by a
// dependency (the jsonrpc2 read loop).  It becomes a task when it first calls
// into the simulator; Adopt waits for that.
func (s *Sched) NewExternalTask(name string) *Task {
	t := s.newTask(name, name, -1)
	t.ID = len(s.Tasks)
	t.State = StRunning
	s.Tasks = append(s.Tasks, t)
	return t
}

// Adopt blocks until the external task has posted its first request.
func (s *Sched) Adopt(t *Task) {
	activeScheds.Add(1)
	defer activeScheds.Add(-1)
	tt := s.wait()
	if tt != t {
		panic("simrt: Adopt: event from unexpected task " + tt.String())
	}
	s.afterEvent(t)
}

func (s *Sched) wait() *Task {
	raceDisable()
	tt := <-s.events
	raceEnable()
	raceAcquire(unsafe.Pointer(&tt.syncVar))
	heartbeat.Add(1)
	return tt
}

func (s *Sched) afterEvent(t *Task) {
	r := getReq(t)
	if r.fin {
		t.State = StDone
		s.Log.Ev(t.ID, "done", "", r.panicV)
		if r.panicV != "" || r.panicSt != "" {
			s.Panics = append(s.Panics, PanicInfo{Task: t.String() + "@" + t.Site, Value: r.panicV, Stack: r.panicSt})
		}
		return
	}
	t.State = StParked
	t.Blocked = false
}

// Runnable reports whether t can be stepped now.
func (s *Sched) Runnable(t *Task) bool {
	if t.State != StParked {
		return false
	}
	r := getReq(t)
	if r.Ready != nil && (t.Blocked || r.CheckFirst) && !r.Ready() {
		return false
	}
	return true
}

// RunnableTasks lists the tasks that can be stepped, in task-id order.
func (s *Sched) RunnableTasks() []*Task {
	var out []*Task
	for _, t := range s.Tasks {
		if s.Runnable(t) {
			out = append(out, t)
		}
	}
	return out
}

// Pending returns the request t is parked on (nil if not parked).
func (s *Sched) Pending(t *Task) *Req {
	if t.State != StParked {
		return nil
	}
	return getReq(t)
}

// Live lists tasks that are not done.
func (s *Sched) Live() []*Task {
	var out []*Task
	for _, t := range s.Tasks {
		if t.State != StDone {
			out = append(out, t)
		}
	}
	return out
}

// Step resumes t and returns when t has parked at its next preemptible
// request, blocked, finished, or detached into an external call.
func (s *Sched) Step(t *Task) {
	if t.State != StParked {
		panic("simrt: Step on task in state " + t.State.String())
	}
	activeScheds.Add(1)
	defer activeScheds.Add(-1)
	s.Stepping = t
	defer func() { s.Stepping = nil }()
	for {
		r := getReq(t)
		var resp *Resp
		done := true
		if r.Do != nil {
			resp, done = r.Do()
		}
		s.Steps++
		t.Steps++
		if !done {
			t.Blocked = true
			s.Log.Ev(t.ID, "blocked", r.Kind, r.Site)
			if s.OnStep != nil {
				s.OnStep(t, r)
			}
			return
		}
		t.Blocked = false
		if resp == nil {
			resp = &Resp{}
		}
		s.Log.Ev(t.ID, r.Kind, r.Site, resp.logDetail())
		if s.OnStep != nil {
			s.OnStep(t, r)
		}
		if r.spawn != nil {
			s.register(r.spawn)
		}
		setResp(t, resp)
		if resp.Detach {
			// The task continues for real into a blocking call of a
			// dependency; it comes back through ExtEnd.
			t.State = StExt
			t.ExtReturned = false
			raceDisable()
			t.wake <- struct{}{}
			raceEnable()
			return
		}
		t.State = StRunning
		s.cur = t
		setCur(s, t)
		raceDisable()
		t.wake <- struct{}{}
		raceEnable()
		for {
			tt := s.wait()
			if tt == t {
				break
			}
			s.strayEvent(tt)
		}
		s.cur = nil
		setCur(s, nil)
		s.afterEvent(t)
		if t.State == StDone {
			return
		}
		nr := getReq(t)
		if nr.extEnd {
			// a task that announced an external call but never detached
			// (the write failed): nothing special, it is parked.
			nr.extEnd = false
		}
		if nr.Atomic {
			continue
		}
		return
	}
}

func (s *Sched) strayEvent(tt *Task) {
	r := getReq(tt)
	if tt.State == StExt && r != nil && r.extEnd {
		// The task is back in real time, but WHEN that happens relative to the
		// scheduler's steps is not deterministic: it stays in state StExt (not
		// runnable) until AwaitExt admits it at the deterministic rendezvous
		// point.  Not logged here for the same reason.
		tt.ExtReturned = true
		return
	}
	panic(fmt.Sprintf("simrt: event from %v (state %v, req %v) while another task runs", tt, tt.State, r))
}

// AwaitExt blocks (in real time, bounded by the watchdog) until the task that
// detached into an external call has come back and parked.
func (s *Sched) AwaitExt(t *Task) {
	if t.State != StExt {
		return
	}
	activeScheds.Add(1)
	defer activeScheds.Add(-1)
	for !t.ExtReturned {
		tt := s.wait()
		s.strayEvent(tt)
	}
	t.State = StParked
	t.Blocked = false
}

// ExtEnd is called by a task when the external call it detached into has
// returned.  It parks the task until the scheduler picks it again.
func ExtEnd(t *Task, site string) {
	t.call(&Req{Kind: "ext-end", Site: site, extEnd: true})
}

// FinishOn reports that an adopted external task (the jsonrpc2 read loop) is
// about to return; it does not wait.
func FinishOn(t *Task) {
	setReq(t, &Req{Kind: "done", fin: true})
	raceRelease(unsafe.Pointer(&t.syncVar))
	raceDisable()
	t.s.events <- t
	raceEnable()
}

// CurrentTask returns the handle of the running task (nil in direct mode).
func CurrentTask() *Task { return getCurTask() }

// MapOrderFor is the environment side of MapSeq.
func (s *Sched) mapOrder(site string, n int) []int {
	if s.MapOrder == nil {
		return nil
	}
	return s.MapOrder(site, n)
}

// DirectMapOrder is consulted by MapSeq in direct mode.
var DirectMapOrder func(site string, n int) []int

// Stderr replaces os.Stderr in the instrumented tree (debug prints of main.go).
var Stderr = discard{}

type discard struct{}

func (discard) Write(p []byte) (int, error) { return len(p), nil }

// Stdout, Stdin, Args and Exit replace their os counterparts in the generated
// copy of cmd/hledger-lsp (only reachable from OriginalMain, which the
// simulation never calls).
var Stdout = discard{}
var Stdin = eofReader{}
var Args = []string{"hledger-lsp"}

type eofReader struct{}

func (eofReader) Read(p []byte) (int, error) { return 0, errEOF }

var errEOF = fmt.Errorf("EOF")

func Exit(code int) { panic(fmt.Sprintf("simrt: os.Exit(%d) called by the system under test", code)) }

var stackNoise = regexp.MustCompile(`0x[0-9a-f]+[?]?|goroutine [0-9]+`)

// CleanStack removes what differs between two processes running the same
// schedule (addresses, argument words, goroutine numbers) from a stack trace,
// so that a trace line or message quoting it is the same in every replay.
func CleanStack(st string) string {
	return stackNoise.ReplaceAllStringFunc(st, func(m string) string {
		if m[0] == 'g' {
			return "goroutine N"
		}
		return "0x_"
	})
}
