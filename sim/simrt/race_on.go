//go:build race

package simrt

import (
	"runtime"
	"unsafe"
)

// RaceBuild reports whether this binary was built with -race.
const RaceBuild = true

func raceDisable()                 { runtime.RaceDisable() }
func raceEnable()                  { runtime.RaceEnable() }
func raceAcquire(p unsafe.Pointer) { runtime.RaceAcquire(p) }
func raceRelease(p unsafe.Pointer) { runtime.RaceRelease(p) }
