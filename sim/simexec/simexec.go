// Package simexec replaces os/exec: no real process is ever started.  By
// default the executable "is not installed" (true in this sandbox); when
// Active.VersionOK is set, `<path> --version` succeeds so that the server's
// cli client becomes available.
package simexec

import (
	"strings"
	"context"
	"errors"
	"io"

	"github.com/juev/hledger-lsp/internal/verifsim/simrt"
)

type Exec struct {
	VersionOK bool
	Runs      int
}

var Active = &Exec{}

type Cmd struct {
	Path   string
	Args   []string
	Stdout io.Writer
	Stderr io.Writer
	Stdin  io.Reader
	Dir    string
	Env    []string
}

func Command(name string, arg ...string) *Cmd {
	return &Cmd{Path: name, Args: append([]string{name}, arg...)}
}

func CommandContext(ctx context.Context, name string, arg ...string) *Cmd {
	return Command(name, arg...)
}

// Missing: a binary whose name says so is not installed on any simulated
// machine (so that WHICH configured path the server probes is observable).
func Missing(path string) bool { return strings.Contains(path, "missing") }

var ErrNotFound = errors.New("executable file not found in $PATH")

func LookPath(file string) (string, error) {
	r := simrt.Env("exec.lookpath", file, func() *simrt.Resp { return &simrt.Resp{B: Active.VersionOK && !Missing(file)} })
	if r.B {
		return "/usr/bin/" + file, nil
	}
	return "", ErrNotFound
}

func (c *Cmd) Run() error {
	isVersion := len(c.Args) == 2 && c.Args[1] == "--version"
	r := simrt.Env("exec.run", c.Path, func() *simrt.Resp {
		Active.Runs++
		return &simrt.Resp{B: Active.VersionOK && isVersion && !Missing(c.Path)}
	})
	if r.B {
		if c.Stdout != nil {
			io.WriteString(c.Stdout, "hledger 1.32\n")
		}
		return nil
	}
	return errors.New("exec: \"" + c.Path + "\": " + ErrNotFound.Error())
}

func (c *Cmd) Output() ([]byte, error) {
	if err := c.Run(); err != nil {
		return nil, err
	}
	return []byte("hledger 1.32\n"), nil
}

func (c *Cmd) CombinedOutput() ([]byte, error) { return c.Output() }
func (c *Cmd) Start() error                    { return c.Run() }
func (c *Cmd) Wait() error                     { return nil }
