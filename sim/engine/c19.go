//go:build verifsim

package engine

import (
	"encoding/json"
	"fmt"
	"regexp"
	"sort"
	"strconv"
	"strings"

	"github.com/juev/hledger-lsp/internal/verifsim/simrt"
)

// C19: configuration is total, validated and effective.
type c19 struct{}

func init() { Register(c19{}) }

func (c19) Name() string { return "c19" }
func (c19) Rule() string {
	return "full-server simulation: initialize with generated initializationOptions P0, then up to 4 workspace/didChangeConfiguration events; the simulated client answers the server's workspace/configuration requests with generated payloads (per documented key: correct type, number as string, integral float, boolean as string, null, array, object, zero, negative, non-integral float, unknown keys; nested and dotted spelling; with/without the hledger wrapper; whole-payload shapes null, [], string, number, {}), or with an error, with [], late (after further operations, possibly while a second refresh is in flight) or never, under 7 schedule policies. An independent settings model (written from docs/configuration.md and the property text) predicts the effective value set of every key; it is observed ONLY through behaviour at quiescence: advertised capabilities, completion count / subsequence matching / counts in details, indent and alignment of formatting and of inline-completion text, published diagnostic codes (each category toggled independently, empty list when diagnostics are off), inline completion switch, include depth and file-size limits (the number in the limit message). Totality: every payload is followed by requests that must still be answered; no panic; no task left blocked except on a never-answered request. Non-trivial: >= 1 configuration payload with >= 1 recognised key applied and observed. Distinct: hash of (payload shapes, answer kinds, schedule signature)."
}
func (c19) Enumerated(string) int            { return 0 }
func (c19) Components() ([]string, []string) { return serverComponents() }

// ---- independent settings model ---------------------------------------------------

type cfgKey struct {
	Section, Name string
	Kind          string // bool, int
	Default       int    // bools: 1/0
	PositiveOnly  bool   // non-positive falls back to the default
}

var cfgKeys = []cfgKey{
	{"features", "hover", "bool", 1, false},
	{"features", "completion", "bool", 1, false},
	{"features", "formatting", "bool", 1, false},
	{"features", "diagnostics", "bool", 1, false},
	{"features", "semanticTokens", "bool", 1, false},
	{"features", "codeActions", "bool", 1, false},
	{"features", "foldingRanges", "bool", 1, false},
	{"features", "documentLinks", "bool", 1, false},
	{"features", "workspaceSymbol", "bool", 1, false},
	{"features", "inlineCompletion", "bool", 1, false},
	{"completion", "maxResults", "int", 50, true},
	{"completion", "fuzzyMatching", "bool", 1, false},
	{"completion", "showCounts", "bool", 1, false},
	{"diagnostics", "undeclaredAccounts", "bool", 1, false},
	{"diagnostics", "undeclaredCommodities", "bool", 1, false},
	{"diagnostics", "unbalancedTransactions", "bool", 1, false},
	{"formatting", "indentSize", "int", 4, true},
	{"formatting", "alignAmounts", "bool", 1, false},
	{"formatting", "minAlignmentColumn", "int", 0, false},
	{"limits", "maxFileSizeBytes", "int", 10485760, true},
	{"limits", "maxIncludeDepth", "int", 50, true},
}

// cfgModel maps "section.name" to the set of acceptable effective values.
type cfgModel map[string]map[int]bool

func newCfgModel() cfgModel {
	m := cfgModel{}
	for _, k := range cfgKeys {
		m[k.Section+"."+k.Name] = map[int]bool{k.Default: true}
	}
	// the CLI binary: which path is probed (index into cliPaths) and whether the
	// integration is enabled; observed through the code actions offered
	m["cli.path"] = map[int]bool{0: true}
	m["cli.enabled"] = map[int]bool{1: true}
	return m
}

var cliPaths = []string{"hledger", "hledger-x", "hledger-missing"}

func (m cfgModel) clone() cfgModel {
	c := cfgModel{}
	for k, v := range m {
		c[k] = map[int]bool{}
		for x := range v {
			c[k][x] = true
		}
	}
	return c
}

func (m cfgModel) one(key string) (int, bool) {
	if len(m[key]) != 1 {
		return 0, false
	}
	for v := range m[key] {
		return v, true
	}
	return 0, false
}

func (m cfgModel) has(key string, v int) bool { return m[key][v] }

func (m cfgModel) String() string {
	var parts []string
	for _, k := range cfgKeys {
		key := k.Section + "." + k.Name
		var vs []int
		for v := range m[key] {
			vs = append(vs, v)
		}
		sort.Ints(vs)
		if len(vs) == 1 && vs[0] == k.Default {
			continue
		}
		parts = append(parts, fmt.Sprintf("%s=%v", key, vs))
	}
	if p, ok := m.one("cli.path"); !ok || p != 0 {
		parts = append(parts, fmt.Sprintf("cli.path=%v", keysInt(m["cli.path"])))
	}
	if e, ok := m.one("cli.enabled"); !ok || e != 1 {
		parts = append(parts, fmt.Sprintf("cli.enabled=%v", keysInt(m["cli.enabled"])))
	}
	return "{" + strings.Join(parts, " ") + "}"
}

// interpret returns the acceptable values a JSON value denotes for a key:
// (nil,false) = ill-typed, leaves the previous value unchanged.
func cfgInterpret(k cfgKey, v any, prev map[int]bool) (map[int]bool, bool) {
	withDefault := func(n int) int {
		if k.PositiveOnly && n <= 0 {
			return k.Default
		}
		return n
	}
	switch k.Kind {
	case "bool":
		switch x := v.(type) {
		case bool:
			if x {
				return map[int]bool{1: true}, true
			}
			return map[int]bool{0: true}, true
		case string:
			if x == "true" {
				return map[int]bool{1: true}, true
			}
			if x == "false" {
				return map[int]bool{0: true}, true
			}
			// other capitalisation / surrounding blanks: may or may not count
			switch strings.ToLower(strings.TrimSpace(x)) {
			case "true", "false":
				out := map[int]bool{}
				for p := range prev {
					out[p] = true
				}
				if strings.ToLower(strings.TrimSpace(x)) == "true" {
					out[1] = true
				} else {
					out[0] = true
				}
				return out, true
			}
		}
		return nil, false
	case "int":
		switch x := v.(type) {
		case float64:
			if x == float64(int64(x)) && x > -1e15 && x < 1e15 {
				return map[int]bool{withDefault(int(x)): true}, true
			}
			// non-integral or huge: the text leaves it open — previous value,
			// truncation, rounding or the default are all acceptable
			out := map[int]bool{k.Default: true}
			for p := range prev {
				out[p] = true
			}
			if x > -1e15 && x < 1e15 {
				out[withDefault(int(x))] = true
				out[withDefault(int(x+0.5))] = true
			}
			return out, true
		case string:
			if n, err := strconv.Atoi(x); err == nil && strconv.Itoa(n) == x {
				return map[int]bool{withDefault(n): true}, true
			}
		}
		return nil, false
	}
	return nil, false
}

// apply merges payload p into the model.
func (m cfgModel) apply(p any) {
	obj, ok := p.(map[string]any)
	if !ok {
		return
	}
	if inner, ok := obj["hledger"]; ok {
		m.apply(inner)
		return
	}
	for _, k := range cfgKeys {
		key := k.Section + "." + k.Name
		if sec, ok := obj[k.Section].(map[string]any); ok {
			if v, ok := sec[k.Name]; ok {
				if vals, ok := cfgInterpret(k, v, m[key]); ok {
					m[key] = vals
				}
			}
		}
		if v, ok := obj[key]; ok {
			if vals, ok := cfgInterpret(k, v, m[key]); ok {
				m[key] = vals
			}
		}
	}
	// cli section (generated well-formed only: a path from cliPaths, a boolean)
	if sec, ok := obj["cli"].(map[string]any); ok {
		if p, ok := sec["path"].(string); ok {
			for i, cp := range cliPaths {
				if cp == p {
					m["cli.path"] = map[int]bool{i: true}
				}
			}
		}
		if e, ok := sec["enabled"].(bool); ok {
			if e {
				m["cli.enabled"] = map[int]bool{1: true}
			} else {
				m["cli.enabled"] = map[int]bool{0: true}
			}
		}
	}
}

// ---- payload generator ----------------------------------------------------------------

func genCfgPayload(c *simrt.Chooser) (payload any, shape string) {
	switch c.Weighted("payload-shape", []int{20, 1, 1, 1, 1, 1}) {
	case 1:
		return nil, "null"
	case 2:
		return []any{}, "[]"
	case 3:
		return "x", "string"
	case 4:
		return 42, "number"
	case 5:
		return map[string]any{}, "{}"
	}
	obj := map[string]any{}
	var shapes []string
	dottedAll := c.Pct("dotted", 30)
	for _, k := range cfgKeys {
		if !c.Pct("key", 22) {
			continue
		}
		var v any
		enc := ""
		if k.Kind == "bool" {
			b := c.Bool("bool-val")
			switch c.Weighted("bool-enc", []int{8, 3, 1, 1, 1, 1, 1, 2, 1}) {
			case 7:
				// spellings that are not booleans: the value must stay unchanged
				v = []string{"1", "0", "t", "f", "T", "F", "on", "off", "y", "n"}[c.Choose("bool-junk", 10)]
				enc = "ill:" + v.(string)
			case 8:
				// other capitalisations of true/false: the text leaves open whether
				// they count, so both outcomes are acceptable
				if b {
					v = []string{"TRUE", "True", " true "}[c.Choose("bool-case", 3)]
				} else {
					v = []string{"FALSE", "False", " false "}[c.Choose("bool-case", 3)]
				}
				enc = "bool-as-string-other-case"
			case 0:
				v, enc = b, "bool"
			case 1:
				v, enc = strconv.FormatBool(b), "bool-as-string"
			case 2:
				v, enc = "yes", "ill:yes"
			case 3:
				v, enc = 1, "ill:number"
			case 4:
				v, enc = nil, "ill:null"
			case 5:
				v, enc = []any{b}, "ill:array"
			case 6:
				v, enc = map[string]any{"value": b}, "ill:object"
			}
		} else {
			var n int
			switch k.Name {
			case "maxResults":
				n = []int{1, 3, 5, 10, 29, 30, 31, 200}[c.Choose("maxResults", 8)]
			case "indentSize":
				n = []int{1, 2, 3, 4, 6, 8}[c.Choose("indent", 6)]
			case "minAlignmentColumn":
				n = []int{0, 10, 40, 60, 72}[c.Choose("mincol", 5)]
			case "maxFileSizeBytes":
				n = []int{2500, 3999, 4000, 4001, 6000, 10485760}[c.Choose("maxsize", 6)]
			case "maxIncludeDepth":
				n = []int{1, 2, 3, 4, 5, 50}[c.Choose("maxdepth", 6)]
			}
			switch c.Weighted("int-enc", []int{8, 3, 2, 2, 1, 1, 1, 1, 1, 1}) {
			case 0:
				v, enc = n, "int"
			case 1:
				v, enc = strconv.Itoa(n), "int-as-string"
			case 2:
				v, enc = float64(n), "integral-float"
			case 3:
				if k.PositiveOnly {
					v, enc = 0, "zero"
				} else {
					v, enc = n, "int"
				}
			case 4:
				if k.PositiveOnly {
					v, enc = -n, "negative"
				} else {
					v, enc = n, "int"
				}
			case 5:
				v, enc = "abc", "ill:string"
			case 6:
				v, enc = true, "ill:bool"
			case 7:
				v, enc = nil, "ill:null"
			case 8:
				v, enc = []any{n}, "ill:array"
			case 9:
				v, enc = float64(n)+0.5, "non-integral-float"
			}
		}
		shapes = append(shapes, k.Name+":"+enc)
		if dottedAll || c.Pct("dotted-key", 15) {
			obj[k.Section+"."+k.Name] = v
		} else {
			sec, _ := obj[k.Section].(map[string]any)
			if sec == nil {
				sec = map[string]any{}
				obj[k.Section] = sec
			}
			sec[k.Name] = v
		}
	}
	if c.Pct("unknown-keys", 30) {
		obj["bogus"] = 7
		if sec, ok := obj["features"].(map[string]any); ok {
			sec["teleport"] = true
		}
		obj["completion.bogus"] = "x"
		shapes = append(shapes, "unknown-keys")
	}
	if c.Pct("section-not-object", 6) {
		sec := []string{"features", "completion", "diagnostics", "formatting", "limits"}[c.Choose("bad-section", 5)]
		obj[sec] = "oops"
		shapes = append(shapes, sec+":section-not-object")
	}
	if c.Pct("cli", 45) {
		sec := map[string]any{"path": cliPaths[c.Choose("cli-path", len(cliPaths))], "timeout": 5000}
		if c.Bool("cli-enabled-given") {
			sec["enabled"] = c.Pct("cli-enabled", 75)
		}
		obj["cli"] = sec
		shapes = append(shapes, "cli")
	}
	var out any = obj
	if c.Pct("wrapper", 40) {
		out = map[string]any{"hledger": obj}
		shapes = append(shapes, "wrapper")
	}
	return out, strings.Join(shapes, ",")
}

// ---- probe document and observation -------------------------------------------------------

const c19NNames = 30

func c19ProbeText(counter int) string {
	var b strings.Builder
	fmt.Fprintf(&b, "; probe %d\n", counter)
	b.WriteString("account probe:declared\n")
	b.WriteString("commodity 1.00 PRB\n")
	b.WriteString("include inc1.journal\n")
	b.WriteString("include big.journal\n")
	b.WriteString("\n2024-01-01 probe\n       probe:undeclared  1 UND\n       probe:declared  -1 UND\n")
	b.WriteString("\n2024-01-02 unbalanced\n       probe:declared  1 PRB\n       probe:declared:longer:name  2 PRB\n")
	b.WriteString("\n2024-01-03 names\n")
	for i := 0; i < c19NNames; i++ {
		fmt.Fprintf(&b, "       probe:nm:x%02d  1 PRB\n", i)
	}
	b.WriteString("       probe:declared\n")
	b.WriteString("\n2024-02-01 probe\n\n")
	return b.String()
}

type c19obs struct {
	codes        map[string]int
	published    bool
	nDiag        int
	depthMsg     int // number in "include depth limit exceeded (N)", 0 = no such message
	sizeMsg      int // number in "(max N)", 0 = no such message
	complCount   int
	complCounts  bool // details carry "(n)"
	fuzzyCount   int
	indent       int  // leading blanks of formatted posting lines (-1 unknown)
	aligned      bool // amounts of the two postings of the unbalanced transaction start in one column
	amountCol    int
	inlineItems  int
	inlineIndent int
	codeActions  int // number of code actions offered (-1 not asked)
	text         string // text of the probe document when the observation ended
	execOK       bool
	trouble      string
	fmtLines     []string
}

var depthRe = regexp.MustCompile(`include depth limit exceeded \((\d+)\)`)
var sizeRe = regexp.MustCompile(`\(max (\d+)\)`)

func c19Observe(d *Driver, uri string, counter *int) c19obs {
	o := c19obs{codes: map[string]int{}, indent: -1, inlineIndent: -1}
	*counter++
	text := c19ProbeText(*counter)
	mark := len(d.Sess.Out)
	d.Notify("textDocument/didChange", J{"textDocument": J{"uri": uri, "version": *counter + 1}, "contentChanges": []J{{"text": text}}})
	if !d.Quiesce() {
		o.trouble = "no quiescence after didChange: " + d.Deadlock
		return o
	}
	for i := mark; i < len(d.Sess.Out); i++ {
		m := &d.Sess.Out[i]
		if m.Method != "textDocument/publishDiagnostics" {
			continue
		}
		var p struct {
			URI         string `json:"uri"`
			Diagnostics []struct {
				Code    any    `json:"code"`
				Message string `json:"message"`
			} `json:"diagnostics"`
		}
		json.Unmarshal(m.Params, &p)
		if p.URI != uri {
			continue
		}
		o.published = true
		o.codes = map[string]int{}
		o.nDiag = len(p.Diagnostics)
		o.depthMsg, o.sizeMsg = 0, 0
		for _, dg := range p.Diagnostics {
			if s, ok := dg.Code.(string); ok && s != "" {
				o.codes[s]++
			}
			if mm := depthRe.FindStringSubmatch(dg.Message); mm != nil {
				o.depthMsg, _ = strconv.Atoi(mm[1])
			}
			if mm := sizeRe.FindStringSubmatch(dg.Message); mm != nil {
				o.sizeMsg, _ = strconv.Atoi(mm[1])
			}
		}
	}
	lines := strings.Split(text, "\n")
	nameLine, lastLine := 0, 0
	for i, l := range lines {
		if strings.Contains(l, "probe:nm:x00") {
			nameLine = i
		}
		if l == "2024-02-01 probe" {
			lastLine = i
		}
	}
	// completion: fragment "probe:nm:" matches the 30 names
	frag := "       probe:nm:"
	if r := d.Call("textDocument/completion", J{"textDocument": docID(uri), "position": pos(nameLine, len(frag))}); r != nil {
		var cl struct {
			Items []struct {
				Label  string `json:"label"`
				Detail string `json:"detail"`
			} `json:"items"`
		}
		json.Unmarshal(r.Result, &cl)
		for _, it := range cl.Items {
			if strings.HasPrefix(it.Label, "probe:nm:") {
				o.complCount++
			}
			if strings.Contains(it.Detail, "(") {
				o.complCounts = true
			}
		}
		if len(cl.Items) > o.complCount {
			o.complCount = len(cl.Items)
		}
	} else {
		o.trouble = "completion not answered"
		return o
	}
	// fuzzy: a posting line being typed with the fragment "pnx07": a subsequence of
	// the existing name probe:nm:x07 but a prefix of no other name
	*counter++
	ftext := strings.Replace(c19ProbeText(*counter), "       probe:declared:longer:name  2 PRB", "       probe:declared:longer:name  2 PRB\n       pnx07", 1)
	d.Notify("textDocument/didChange", J{"textDocument": J{"uri": uri, "version": *counter + 1}, "contentChanges": []J{{"text": ftext}}})
	d.Quiesce()
	fl := 0
	for i, l := range strings.Split(ftext, "\n") {
		if l == "       pnx07" {
			fl = i
		}
	}
	if r := d.Call("textDocument/completion", J{"textDocument": docID(uri), "position": pos(fl, len("       pnx07"))}); r != nil {
		var cl struct {
			Items []struct {
				Label string `json:"label"`
			} `json:"items"`
		}
		json.Unmarshal(r.Result, &cl)
		for _, it := range cl.Items {
			if it.Label == "probe:nm:x07" {
				o.fuzzyCount++
			}
		}
	}
	// back to the probe text, then formatting
	*counter++
	text = c19ProbeText(*counter)
	d.Notify("textDocument/didChange", J{"textDocument": J{"uri": uri, "version": *counter + 1}, "contentChanges": []J{{"text": text}}})
	d.Quiesce()
	if r := d.Call("textDocument/formatting", J{"textDocument": docID(uri), "options": J{"tabSize": 4, "insertSpaces": true}}); r != nil {
		var edits []struct {
			Range   struct{ Start, End struct{ Line, Character int } }
			NewText string `json:"newText"`
		}
		json.Unmarshal(r.Result, &edits)
		cols := map[string]int{}
		for _, e := range edits {
			t := e.NewText
			if strings.Contains(t, "PRB") && !strings.Contains(t, "nm:") {
				o.fmtLines = append(o.fmtLines, t)
			}
			trimmed := strings.TrimLeft(t, " ")
			if strings.HasPrefix(trimmed, "probe:") {
				o.indent = len(t) - len(trimmed)
			}
			for _, key := range []string{"probe:declared  ", "probe:declared:longer:name  "} {
				_ = key
			}
			amountAt := strings.LastIndex(t, "  ") + 2
			if strings.HasSuffix(t, "PRB") && strings.HasPrefix(trimmed, "probe:declared ") {
				cols["short"] = amountAt
			}
			if strings.HasSuffix(t, "PRB") && strings.HasPrefix(trimmed, "probe:declared:longer:name ") {
				cols["long"] = amountAt
			}
		}
		if s, ok := cols["short"]; ok {
			if l, ok := cols["long"]; ok {
				o.aligned = s == l
				o.amountCol = l
			}
		}
	} else {
		o.trouble = "formatting not answered"
		return o
	}
	// inline completion on the empty line after the last header
	if r := d.Call("textDocument/inlineCompletion", J{"textDocument": docID(uri), "position": pos(lastLine+1, 0)}); r != nil {
		var il struct {
			Items []struct {
				InsertText string `json:"insertText"`
			} `json:"items"`
		}
		json.Unmarshal(r.Result, &il)
		o.inlineItems = len(il.Items)
		if len(il.Items) > 0 {
			first := strings.Split(il.Items[0].InsertText, "\n")[0]
			o.inlineIndent = len(first) - len(strings.TrimLeft(first, " "))
		}
	} else {
		o.trouble = "inlineCompletion not answered"
	}
	// code actions: offered iff the CLI integration is enabled and the binary
	// at the configured path answered the probe
	o.codeActions = -1
	if r := d.Call("verif/codeAction", J{"textDocument": docID(uri), "range": rng(0, 0, 0, 0), "context": J{"diagnostics": []any{}}}); r != nil {
		var acts []json.RawMessage
		json.Unmarshal(r.Result, &acts)
		o.codeActions = len(acts)
	} else {
		o.trouble = "codeAction not answered"
	}
	o.execOK = d.Env.Exec.VersionOK
	o.text = text
	return o
}

// c19ObserveNoEdit asks, WITHOUT touching the document first, for what is
// computed per request from the settings: ghost text (indent, switch) and code
// actions (CLI binary). Whatever the server memoised for the same request
// under the previous settings must not be served.
func c19ObserveNoEdit(d *Driver, uri, text string) c19obs {
	o := c19obs{codes: map[string]int{}, indent: -1, inlineIndent: -1, codeActions: -1, execOK: d.Env.Exec.VersionOK}
	lastLine := 0
	for i, l := range strings.Split(text, "\n") {
		if l == "2024-02-01 probe" {
			lastLine = i
		}
	}
	if r := d.Call("textDocument/inlineCompletion", J{"textDocument": docID(uri), "position": pos(lastLine+1, 0)}); r != nil {
		var il struct {
			Items []struct {
				InsertText string `json:"insertText"`
			} `json:"items"`
		}
		json.Unmarshal(r.Result, &il)
		o.inlineItems = len(il.Items)
		if len(il.Items) > 0 {
			first := strings.Split(il.Items[0].InsertText, "\n")[0]
			o.inlineIndent = len(first) - len(strings.TrimLeft(first, " "))
		}
	} else {
		o.trouble = "inlineCompletion not answered"
		return o
	}
	if r := d.Call("verif/codeAction", J{"textDocument": docID(uri), "range": rng(0, 0, 0, 0), "context": J{"diagnostics": []any{}}}); r != nil {
		var acts []json.RawMessage
		json.Unmarshal(r.Result, &acts)
		o.codeActions = len(acts)
	} else {
		o.trouble = "codeAction not answered"
	}
	return o
}

// c19CheckNoEdit judges the request-only observation.
func c19CheckNoEdit(m cfgModel, o c19obs) (string, string) {
	if o.trouble != "" {
		return "totality", o.trouble
	}
	if p, ok := m.one("cli.path"); ok && o.codeActions >= 0 {
		if en, ok := m.one("cli.enabled"); ok {
			want := o.execOK && en == 1 && cliPaths[p] != "hledger-missing"
			if (o.codeActions > 0) != want {
				return "cli.path", fmt.Sprintf("cli.path is %q (installed: %v), cli.enabled is %v, but %d code actions are offered (no edit since the configuration changed)", cliPaths[p], o.execOK && cliPaths[p] != "hledger-missing", en == 1, o.codeActions)
			}
		}
	}
	if ic, ok := m.one("features.inlineCompletion"); ok {
		if (o.inlineItems > 0) != (ic == 1) {
			return "features.inlineCompletion", fmt.Sprintf("inlineCompletion is %v but the request returned %d items (no edit since the configuration changed)", ic == 1, o.inlineItems)
		}
		if o.inlineItems > 0 && !m.has("formatting.indentSize", o.inlineIndent) {
			return "formatting.indentSize", fmt.Sprintf("inline completion text is indented by %d; acceptable: %v (no edit since the configuration changed)", o.inlineIndent, keysInt(m["formatting.indentSize"]))
		}
	}
	return "", ""
}

func minInt(a, b int) int {
	if a < b {
		return a
	}
	return b
}

// c19Check compares an observation with the model; returns (key, message).
func c19Check(m cfgModel, o c19obs) (string, string) {
	if o.trouble != "" {
		return "totality", o.trouble
	}
	diagOn, okD := m.one("features.diagnostics")
	if okD {
		if !o.published {
			return "features.diagnostics", "no diagnostics were published after a change"
		}
		if diagOn == 0 {
			if o.nDiag != 0 {
				return "features.diagnostics", fmt.Sprintf("diagnostics are switched off but %d were published", o.nDiag)
			}
		} else {
			for _, kc := range [][2]string{{"diagnostics.undeclaredAccounts", "UNDECLARED_ACCOUNT"}, {"diagnostics.undeclaredCommodities", "UNDECLARED_COMMODITY"}, {"diagnostics.unbalancedTransactions", "UNBALANCED"}} {
				if want, ok := m.one(kc[0]); ok {
					got := o.codes[kc[1]] > 0
					if got != (want == 1) {
						return kc[0], fmt.Sprintf("setting is %v but diagnostics with code %s present: %v (codes: %v)", want == 1, kc[1], got, o.codes)
					}
				}
			}
			// include depth: chain probe -> inc1 -> inc2 -> inc3
			if dv, ok := m.one("limits.maxIncludeDepth"); ok {
				if dv <= 2 && o.depthMsg == 0 {
					return "limits.maxIncludeDepth", fmt.Sprintf("limit is %d but an include chain of depth 3 produced no depth diagnostic", dv)
				}
				if dv >= 4 && o.depthMsg != 0 {
					return "limits.maxIncludeDepth", fmt.Sprintf("limit is %d but a depth diagnostic (%d) was reported for a chain of depth 3", dv, o.depthMsg)
				}
				if o.depthMsg != 0 && o.depthMsg != dv {
					return "limits.maxIncludeDepth", fmt.Sprintf("limit is %d but the diagnostic names %d", dv, o.depthMsg)
				}
			}
			// size: big.journal has 4000 bytes
			dv, okDepth := m.one("limits.maxIncludeDepth")
			if sv, ok := m.one("limits.maxFileSizeBytes"); ok && okDepth && dv >= 2 {
				if sv < 4000 && o.sizeMsg == 0 {
					return "limits.maxFileSizeBytes", fmt.Sprintf("limit is %d but a 4000-byte include produced no size diagnostic", sv)
				}
				if sv >= 4000 && o.sizeMsg != 0 {
					return "limits.maxFileSizeBytes", fmt.Sprintf("limit is %d but a 4000-byte include was refused (max %d)", sv, o.sizeMsg)
				}
				if o.sizeMsg != 0 && o.sizeMsg != sv {
					return "limits.maxFileSizeBytes", fmt.Sprintf("limit is %d but the diagnostic names %d", sv, o.sizeMsg)
				}
			}
		}
	}
	// completion count: 30 matching names (+ nothing else with that prefix)
	okAny := false
	for mv := range m["completion.maxResults"] {
		if o.complCount == minInt(mv, c19NNames) {
			okAny = true
		}
	}
	if !okAny {
		return "completion.maxResults", fmt.Sprintf("completion returned %d items for 30 matching names; acceptable limits: %v", o.complCount, keysInt(m["completion.maxResults"]))
	}
	if sc, ok := m.one("completion.showCounts"); ok && o.complCount > 0 {
		if o.complCounts != (sc == 1) {
			return "completion.showCounts", fmt.Sprintf("showCounts is %v but details carry counts: %v", sc == 1, o.complCounts)
		}
	}
	if fz, ok := m.one("completion.fuzzyMatching"); ok {
		if (o.fuzzyCount > 0) != (fz == 1) {
			return "completion.fuzzyMatching", fmt.Sprintf("fuzzyMatching is %v but the subsequence fragment 'pnx07' offered probe:nm:x07 %d times", fz == 1, o.fuzzyCount)
		}
	}
	if o.indent >= 0 && !m.has("formatting.indentSize", o.indent) {
		return "formatting.indentSize", fmt.Sprintf("formatted postings are indented by %d; acceptable: %v", o.indent, keysInt(m["formatting.indentSize"]))
	}
	if al, ok := m.one("formatting.alignAmounts"); ok && o.indent >= 0 {
		if o.aligned != (al == 1) {
			return "formatting.alignAmounts", fmt.Sprintf("alignAmounts is %v but amounts after accounts of different length share a column: %v", al == 1, o.aligned)
		}
		if mc, ok := m.one("formatting.minAlignmentColumn"); ok && al == 1 && mc >= 60 {
			if o.amountCol < mc-2 || o.amountCol > mc+2 {
				return "formatting.minAlignmentColumn", fmt.Sprintf("minAlignmentColumn is %d but amounts start in column %d", mc, o.amountCol)
			}
		}
	}
	if p, ok := m.one("cli.path"); ok && o.codeActions >= 0 {
		if en, ok := m.one("cli.enabled"); ok {
			want := o.execOK && en == 1 && cliPaths[p] != "hledger-missing"
			if (o.codeActions > 0) != want {
				return "cli.path", fmt.Sprintf("cli.path is %q (installed: %v), cli.enabled is %v, but %d code actions are offered", cliPaths[p], o.execOK && cliPaths[p] != "hledger-missing", en == 1, o.codeActions)
			}
		}
	}
	if ic, ok := m.one("features.inlineCompletion"); ok {
		if (o.inlineItems > 0) != (ic == 1) {
			return "features.inlineCompletion", fmt.Sprintf("inlineCompletion is %v but the request returned %d items", ic == 1, o.inlineItems)
		}
		if o.inlineItems > 0 && !m.has("formatting.indentSize", o.inlineIndent) {
			return "formatting.indentSize", fmt.Sprintf("inline completion text is indented by %d; acceptable: %v", o.inlineIndent, keysInt(m["formatting.indentSize"]))
		}
	}
	return "", ""
}

func keysInt(m map[int]bool) []int {
	var out []int
	for k := range m {
		out = append(out, k)
	}
	sort.Ints(out)
	return out
}

func (c19) Run(ctx *RunCtx) {
	c := ctx.C
	env := NewEnv()
	env.Disk.Env["HOME"] = "/sim"
	// hledger is installed on three machines out of four (a binary whose name
	// says "missing" on none): code actions show which binary was probed
	env.Exec.VersionOK = c.Pct("hledger-installed", 75)
	env.Disk.WriteFile("/sim/ws/inc1.journal", []byte("; inc1\ninclude inc2.journal\n"))
	env.Disk.WriteFile("/sim/ws/inc2.journal", []byte("; inc2\ninclude inc3.journal\n"))
	env.Disk.WriteFile("/sim/ws/inc3.journal", []byte("; inc3\n"))
	env.Disk.WriteFile("/sim/ws/main.journal", []byte(c19ProbeText(0)))
	env.Disk.WriteFile("/sim/ws/big.journal", []byte(strings.Repeat("; 0123456789012345678901234567890123456\n", 100)))
	policy := c.Choose("policy", numPolicies)
	d := NewDriver(ctx, c, env, policy, "sut", ctx.Log)
	model := newCfgModel()
	fail := func(class, msg string, wit map[string]any) {
		ctx.T("VERDICT %s: %s", class, msg)
		ctx.Fail(&Violation{Property: "C19", Oracle: "settings-model", Class: class, Msg: msg, Witness: wit})
	}
	defer d.Teardown()
	var p0 any
	var shapes []string
	if c.Pct("init-options", 70) {
		var sh string
		p0, sh = genCfgPayload(c)
		shapes = append(shapes, "init:"+sh)
		model.apply(toGeneric(p0))
	}
	cfgCap := c.Pct("cfg-capability", 85)
	workspace := c.Pct("workspace", 30)
	root := ""
	if workspace {
		root = "/sim/ws"
	}
	ctx.T("policy=%s workspace=%v cfgCapability=%v initializationOptions=%s", policyNames[policy], workspace, cfgCap, canonAny(p0))
	r := d.Call("initialize", InitParams(root, false, cfgCap, p0))
	if r == nil || len(r.Error) > 0 && string(r.Error) != "null" {
		fail("totality", "initialize failed or was not answered for initializationOptions "+canonAny(p0), nil)
		return
	}
	// capabilities reflect the feature switches of P0
	var ir struct {
		Capabilities map[string]any `json:"capabilities"`
	}
	json.Unmarshal(r.Result, &ir)
	capOf := map[string]string{"features.hover": "hoverProvider", "features.completion": "completionProvider", "features.formatting": "documentFormattingProvider",
		"features.semanticTokens": "semanticTokensProvider", "features.foldingRanges": "foldingRangeProvider", "features.documentLinks": "documentLinkProvider",
		"features.workspaceSymbol": "workspaceSymbolProvider", "features.codeActions": "codeActionProvider"}
	for _, key := range keysOf(capOf) {
		want, ok := model.one(key)
		if !ok {
			continue
		}
		v, present := ir.Capabilities[capOf[key]]
		on := present && v != nil && v != false
		if on != (want == 1) {
			fail("capability:"+key, fmt.Sprintf("%s is %v after initializationOptions %s but capability %s advertised: %v", key, want == 1, canonAny(p0), capOf[key], on), nil)
			return
		}
	}
	if want, ok := model.one("features.inlineCompletion"); ok {
		exp, _ := ir.Capabilities["experimental"].(map[string]any)
		on := exp != nil && exp["inlineCompletionProvider"] == true
		if on != (want == 1) {
			fail("capability:features.inlineCompletion", fmt.Sprintf("inlineCompletion is %v but experimental.inlineCompletionProvider advertised: %v", want == 1, on), nil)
			return
		}
	}
	d.Notify("initialized", J{})
	uri := "file:///sim/ws/main.journal"
	counter := 0
	d.Notify("textDocument/didOpen", J{"textDocument": J{"uri": uri, "languageId": "hledger", "version": 1, "text": c19ProbeText(0)}})
	// the initial refresh asks for the configuration: answer it with P1 or not at all
	applied := 0
	never := map[string]bool{}
	var alts []cfgModel // models under other application orders of replies that were in flight together
	nEvents := c.Range("events", 0, 4)
	lastText := ""
	for ev := 0; ev <= nEvents; ev++ {
		pulledFrom := -1 // index into Sess.Out from which a configuration request counts as a pull of this change
		pendingAtNotify := 0
		if ev > 0 {
			if len(d.Sess.PendingServerRequests()) > 0 && c.Pct("answer-right-before-notify", 50) {
				// the client answers what is still pending (with its configuration of
				// that moment) and changes its configuration right afterwards: the
				// change must be pulled by a request of its own
				before := model.clone()
				ps := answerRound(ctx, c, d, model, &shapes, &applied, true, never)
				if len(ps) >= 2 {
					alts = append(alts, permuteApply(before, ps)...)
				} else {
					for i := range alts {
						for _, p := range ps {
							alts[i].apply(p)
						}
					}
				}
				ctx.Stats.Inc("probe:answer-right-before-next-change")
			}
			for _, id := range d.Sess.PendingServerRequests() {
				if !never[id] {
					pendingAtNotify++
				}
			}
			pulledFrom = len(d.Sess.Out)
			d.Notify("workspace/didChangeConfiguration", J{"settings": J{}})
			ctx.T("didChangeConfiguration #%d", ev)
			if c.Pct("overlap", 25) && ev < nEvents {
				// a second change before the first is answered: two refreshes in flight
				d.PumpN(c.Choose("steps", 20))
				ev++
				d.Notify("workspace/didChangeConfiguration", J{"settings": J{}})
				ctx.T("didChangeConfiguration #%d (overlapping)", ev)
				ctx.Stats.Inc("probe:two-refreshes-in-flight")
			}
		}
		d.PumpN(c.Choose("steps", 40))
		// answer what is pending, in request order; late ones are answered after more steps
		for round := 0; round < 4; round++ {
			d.Quiesce()
			pend := 0
			for _, id := range d.Sess.PendingServerRequests() {
				if !never[id] {
					pend++
				}
			}
			if pend == 0 {
				break
			}
			before := model.clone()
			ps := answerRound(ctx, c, d, model, &shapes, &applied, round > 0, never)
			if len(ps) >= 2 {
				// several refreshes were in flight and answered together
				alts = append(alts, permuteApply(before, ps)...)
			} else {
				for i := range alts {
					for _, p := range ps {
						alts[i].apply(p)
					}
				}
			}
			d.PumpN(c.Choose("steps", 30))
		}
		if !d.Quiesce() {
			fail("totality", "no quiescence after configuration event: "+d.Deadlock, nil)
			return
		}
		if len(d.S.Panics)+len(d.Sess.Panics) > 0 {
			ps := append(d.S.Panics, d.Sess.Panics...)
			fail("totality", fmt.Sprintf("panic in %s: %s", ps[0].Task, ps[0].Value), nil)
			return
		}
		if cfgCap && pulledFrom >= 0 && pendingAtNotify == 0 {
			// every request issued before this change was already answered (with
			// the older configuration): the server has to ask again
			pulls := 0
			for _, m := range d.Sess.Out[pulledFrom:] {
				if m.Method == "workspace/configuration" && m.ID != "" {
					pulls++
				}
			}
			if pulls == 0 {
				fail("ineffective:change-not-pulled", fmt.Sprintf("configuration event %d: the client announced a configuration change (workspace/didChangeConfiguration) after all earlier workspace/configuration requests had been answered, and the server never asked for the new configuration", ev), nil)
				return
			}
		}
		if lastText != "" && c.Pct("observe-without-edit", 40) {
			o0 := c19ObserveNoEdit(d, uri, lastText)
			ctx.Stats.Inc("probe:observed-without-an-edit-since-the-configuration-changed")
			ctx.T("observed after event %d without an edit: inline=%d/%d codeActions=%d  model=%s", ev, o0.inlineItems, o0.inlineIndent, o0.codeActions, model)
			if key, msg := c19CheckNoEdit(model, o0); key != "" {
				explained := false
				for _, alt := range alts {
					if k2, _ := c19CheckNoEdit(alt, o0); k2 == "" {
						explained = true // judged (and adopted) by the full observation below
					}
				}
				if !explained {
					fail("ineffective:"+key, fmt.Sprintf("after configuration event %d: %s (model: %s)", ev, msg, model), map[string]any{"key": key})
					return
				}
			}
		}
		o := c19Observe(d, uri, &counter)
		lastText = o.text
		ctx.T("observed after event %d: codes=%v depthMsg=%d sizeMsg=%d completion=%d counts=%v fuzzy=%d indent=%d aligned=%v col=%d inline=%d/%d codeActions=%d  model=%s fmt=%q", ev, o.codes, o.depthMsg, o.sizeMsg, o.complCount, o.complCounts, o.fuzzyCount, o.indent, o.aligned, o.amountCol, o.inlineItems, o.inlineIndent, o.codeActions, model, o.fmtLines)
		if key, msg := c19Check(model, o); key != "" {
			adopted := false
			for _, alt := range alts {
				if k2, _ := c19Check(alt, o); k2 == "" {
					// the behaviour is that of the same replies applied in another order
					ctx.T("VERDICT reply-order: %s; the observation matches the model with the replies applied in another order: %s", msg, alt)
					if ctx.Fail(&Violation{Property: "C19", Oracle: "settings-model", Class: "reply-order", Msg: fmt.Sprintf("after configuration event %d, with two configuration refreshes in flight, the replies were applied in another order than the client sent them: %s (in-order model: %s; matching model: %s)", ev, msg, model, alt)}) {
						model = alt
						alts = nil
						adopted = true
					} else {
						return
					}
					break
				}
			}
			if !adopted {
				fail("ineffective:"+key, fmt.Sprintf("after configuration event %d: %s (model: %s)", ev, msg, model), map[string]any{"key": key})
				return
			}
		}
	}
	ctx.NonTrivial = applied > 0 || p0 != nil
	ctx.SigExtra = strings.Join(shapes, ";")
	for _, s := range shapes {
		for _, part := range strings.Split(s, ",") {
			if i := strings.LastIndex(part, ":"); i >= 0 {
				ctx.Stats.Inc("enc:" + part[i+1:])
			}
		}
	}
}

func answerRound(ctx *RunCtx, c *simrt.Chooser, d *Driver, model cfgModel, shapes *[]string, applied *int, late bool, never map[string]bool) (payloads []any) {
	live := 0
	for _, id := range d.Sess.PendingServerRequests() {
		if !never[id] {
			live++
		}
	}
	// several refreshes in flight: half of the time their answers contrast in
	// two keys that are applied by different code (the CLI binary, probed by
	// running it, and a plain value), so that "each key ends with the value of
	// the SAME answer" is observable
	contrast := live >= 2 && c.Pct("contrasting-answers", 50)
	nth := 0
	for _, id := range d.Sess.PendingServerRequests() {
		if never[id] {
			continue
		}
		kind := c.Weighted("answer", []int{10, 2, 2, 2, 1})
		if late && kind == 3 {
			kind = 0
		}
		switch kind {
		case 0:
			p, sh := genCfgPayload(c)
			if obj, ok := p.(map[string]any); ok && contrast {
				if inner, ok := obj["hledger"].(map[string]any); ok {
					obj = inner
				}
				obj["cli"] = map[string]any{"path": []string{"hledger-x", "hledger-missing"}[nth%2], "enabled": true}
				delete(obj, "cli.path")
				delete(obj, "cli.enabled")
				delete(obj, "completion.maxResults")
				if sec, ok := obj["completion"].(map[string]any); ok {
					sec["maxResults"] = 2 + nth
				} else {
					obj["completion"] = map[string]any{"maxResults": 2 + nth}
				}
				sh += ",contrast"
				nth++
				ctx.Stats.Inc("probe:contrasting-answers-to-refreshes-in-flight")
			}
			*shapes = append(*shapes, "reply:"+sh)
			d.Sess.Respond(id, []any{p}, nil)
			model.apply(toGeneric(p))
			payloads = append(payloads, toGeneric(p))
			*applied++
			ctx.T("client answers workspace/configuration #%s with [%s]  => model %s", id, canonAny(p), model)
		case 1:
			d.Sess.Respond(id, nil, J{"code": -32603, "message": "no configuration"})
			ctx.T("client answers workspace/configuration #%s with an error", id)
			ctx.Stats.Inc("fault:cfg-error")
			*shapes = append(*shapes, "reply:error")
		case 2:
			d.Sess.Respond(id, []any{}, nil)
			ctx.T("client answers workspace/configuration #%s with []", id)
			ctx.Stats.Inc("fault:cfg-empty")
			*shapes = append(*shapes, "reply:[]")
		case 3:
			ctx.T("client does not answer workspace/configuration #%s yet", id)
			ctx.Stats.Inc("fault:cfg-late")
			*shapes = append(*shapes, "reply:late")
		case 4:
			ctx.T("client never answers workspace/configuration #%s", id)
			ctx.Stats.Inc("fault:cfg-never")
			*shapes = append(*shapes, "reply:never")
			never[id] = true
		}
	}
	return payloads
}

// permuteApply returns the models obtained by applying payloads to base in
// every order other than the given one.
func permuteApply(base cfgModel, payloads []any) []cfgModel {
	var out []cfgModel
	n := len(payloads)
	if n < 2 || n > 4 {
		return nil
	}
	idx := make([]int, n)
	for i := range idx {
		idx[i] = i
	}
	var rec func(k int)
	rec = func(k int) {
		if k == n {
			identity := true
			for i, x := range idx {
				if x != i {
					identity = false
				}
			}
			if identity {
				return
			}
			m := base.clone()
			for _, x := range idx {
				m.apply(payloads[x])
			}
			out = append(out, m)
			return
		}
		for j := k; j < n; j++ {
			idx[k], idx[j] = idx[j], idx[k]
			rec(k + 1)
			idx[k], idx[j] = idx[j], idx[k]
		}
	}
	rec(0)
	return out
}

// toGeneric round-trips a payload through JSON so that the model sees what a
// decoder sees (float64 numbers, map[string]any objects).
func toGeneric(v any) any {
	b, err := json.Marshal(v)
	if err != nil {
		return nil
	}
	var out any
	json.Unmarshal(b, &out)
	return out
}
