package engine

import (
	"fmt"
	"path"
	"sort"
	"strings"

	"github.com/juev/hledger-lsp/internal/include"
	"github.com/juev/hledger-lsp/internal/verifsim/simfs"
	"github.com/juev/hledger-lsp/internal/verifsim/simrt"
)

// C10: include resolution equals graph reachability with exact cycle verdicts.
// Component simulation of include.Loader on the simulated disk with faults; the
// oracle is an independent ancestor-stack resolver over the disk as the loader
// saw it (the outcomes of its own stat/read calls are replayed to the model).
type c10 struct{}

func init() { Register(c10{}) }

func (c10) Name() string { return "c10" }
func (c10) Rule() string {
	return "include graphs on 1..5 files (every edge independently present in relative / ./ / absolute / ~/ / glob / ** form, self-loops, diamonds, cycles, dangling targets, a directory named like a journal, an oversized file) x depth limit 1..5 or default x small size limit x entry via Load or LoadFromContent, each on a fresh loader. Seeded runs draw the graph and 0..2 disk faults (sticky enoent/eio/isdir before the load; one-shot enoent, eio, torn read, stat-then-delete, stat-small-then-grow inside the load). Enumerated runs (level fault_enumeration) take G generated graphs and inject each of the 5 one-shot fault kinds at each disk-call index of the fault-free execution, one run per (graph, kind, index). Oracle: independent ancestor-stack reachability model fed with the outcomes of the loader's own disk calls. Non-trivial: graph has >= 1 include edge and the load made >= 2 disk calls; distinct by (graph shape, limits, entry, fault placement)."
}

const c10Graphs = 12
const c10MaxIdx = 48

func (c10) Enumerated(tier string) int {
	g := c10Graphs
	if tier == "thorough" {
		g = 400
	}
	return g * 5 * c10MaxIdx
}
func (c10) Components() ([]string, []string) {
	return []string{"internal/include (Loader, resolver)", "internal/parser", "internal/ast", "doublestar matcher (real matcher over an fs.FS view of the simulated disk)"},
		[]string{"disk and environment (simfs) with fault injection", "map iteration order", "sync.RWMutex (simsync, direct mode)"}
}

// EnumStream makes every (kind, index) of one graph share the graph's stream.
func (c10) EnumStream(param int) uint64 { return uint64(param / (5 * c10MaxIdx)) }

type refErr struct {
	Kind   string // cycle, notfound, toolarge, depth
	Target string
	Line   int
}

func (e refErr) String() string { return fmt.Sprintf("%s(%s@L%d)", e.Kind, e.Target, e.Line) }

// refResolver is the independent model.
type refResolver struct {
	disk            *simfs.Disk
	home            string
	maxSize         int64
	maxDepth        int
	calls           map[string][]simfs.CallRec // recorded outcomes per "op path", consumed in order
	loaded          map[string]bool
	order           []string
	errs            []refErr
	unsure          []refErr // errors whose presence the model does not assert (depth boundary)
	unsureFiles     map[string]bool
	rootText        string
	steps           int
	backup          map[string][]byte
	unknownLines    map[int]bool
	unknownErrLines map[int]bool
}

func (r *refResolver) next(op, p string) (simfs.CallRec, bool) {
	k := op + " " + p
	q := r.calls[k]
	if len(q) == 0 {
		return simfs.CallRec{}, false
	}
	r.calls[k] = q[1:]
	return q[0], true
}

// includesOf parses include directives with an independent line scanner: a
// line whose first word is "include" followed by blanks and a path.
func includesOf(text string) []IncDirective {
	var out []IncDirective
	for i, l := range strings.Split(text, "\n") {
		l = strings.TrimSuffix(l, "\r")
		if !strings.HasPrefix(l, "include") {
			continue
		}
		rest := l[len("include"):]
		if rest == "" || (rest[0] != ' ' && rest[0] != '\t') {
			continue
		}
		p := strings.TrimSpace(rest)
		if p == "" {
			continue
		}
		out = append(out, IncDirective{Line: i + 1, Raw: p})
	}
	return out
}

func (r *refResolver) expand(from string, d IncDirective, consume bool) (targets []string, ok bool) {
	raw := d.Raw
	dir := path.Dir(from)
	if strings.ContainsAny(raw, "*?[") || strings.Contains(raw, "<->") {
		pat := strings.ReplaceAll(raw, "<->", "**")
		key := pat
		if !strings.HasPrefix(key, "/") {
			key = path.Join(dir, pat)
		}
		rec, okr := simfs.CallRec{}, false
		if consume {
			rec, okr = r.next("glob", key)
		} else if q := r.calls["glob "+key]; len(q) > 0 {
			rec, okr = q[0], true
		}
		if okr {
			// what the matcher returned when the loader asked; the loader's own
			// duties (drop the including file, sort) are the model's too
			var ts []string
			for _, m := range rec.Names {
				if m != from {
					ts = append(ts, m)
				}
			}
			sort.Strings(ts)
			return ts, true
		}
		deep := strings.HasPrefix(pat, "**/")
		if deep {
			pat = pat[3:]
		}
		if pat != "*.journal" {
			// a pattern the generator never writes (a torn read cut a directive) for
			// which the loader asked nothing: the model does not know
			return nil, false
		}
		ts := globTargets(r.disk, dir, deep, from)
		return ts, true
	}
	// home expansion as documented: "~" alone and "~/x"
	if raw == "~" {
		return []string{r.home}, true
	}
	if strings.HasPrefix(raw, "~/") {
		raw = path.Join(r.home, raw[2:])
	}
	if !strings.HasPrefix(raw, "/") {
		raw = path.Join(dir, raw)
	}
	return []string{path.Clean(raw)}, true
}

func (r *refResolver) resolve(file, text string, stack []string) {
	r.steps++
	if r.steps > 10000 {
		return
	}
	for _, d := range includesOf(text) {
		targets, ok := r.expand(file, d, true)
		if !ok {
			r.unknownLines[d.Line] = true
			continue
		}
		if len(targets) == 0 {
			r.errs = append(r.errs, refErr{"notfound", d.Raw, d.Line})
			continue
		}
		for _, t := range targets {
			onStack := false
			for _, s := range stack {
				if s == t {
					onStack = true
				}
			}
			if onStack {
				r.errs = append(r.errs, refErr{"cycle", t, d.Line})
				continue
			}
			if r.loaded[t] {
				continue // reached twice along acyclic paths: not an error, not loaded again
			}
			// depth: len(stack) ancestors (root included).  Readings differ by one.
			if len(stack) > r.maxDepth {
				r.errs = append(r.errs, refErr{"depth", t, d.Line})
				continue
			}
			allKinds := func() {
				r.unsure = append(r.unsure, refErr{"cycle", t, d.Line}, refErr{"depth", t, d.Line}, refErr{"notfound", t, d.Line}, refErr{"toolarge", t, d.Line})
			}
			if r.unsureFiles[t] {
				// t was met before at the depth boundary, where the model does not
				// know whether it was loaded (and whether disk calls were made for
				// it): nothing about it is asserted from here on.
				allKinds()
				continue
			}
			if len(stack) == r.maxDepth {
				// may load or may be refused as too deep (the two readings of
				// "depth" differ by one): the model asserts neither, consumes no
				// recorded disk call, and asserts nothing below it.
				allKinds()
				r.unsureFiles[t] = true
				if data, ok := r.disk.Read(t); ok {
					r.markSubtreeUnsure(t, string(data), append(stack, t))
				} else if data, ok := r.backup[t]; ok {
					r.markSubtreeUnsure(t, string(data), append(stack, t))
				}
				continue
			}
			// what did the loader's own disk calls return for t?
			content, status := r.probe(t)
			switch status {
			case "missing":
				r.errs = append(r.errs, refErr{"notfound", t, d.Line})
				continue
			case "toolarge":
				r.errs = append(r.errs, refErr{"toolarge", t, d.Line})
				continue
			case "either-large":
				r.unsure = append(r.unsure, refErr{"toolarge", t, d.Line})
				r.unsureFiles[t] = true
			}
			r.loaded[t] = true
			r.order = append(r.order, t)
			r.resolve(t, content, append(append([]string(nil), stack...), t))
		}
	}
}

// markSubtreeUnsure: below a boundary file nothing is asserted.
func (r *refResolver) markSubtreeUnsure(file, text string, stack []string) {
	r.steps++
	if r.steps > 10000 {
		return
	}
	for _, d := range includesOf(text) {
		// nothing is asserted about this directive, whatever a torn read made of it
		r.unknownErrLines[d.Line] = true
		targets, ok := r.expand(file, d, false)
		if !ok {
			continue
		}
		if len(targets) == 0 {
			r.unsure = append(r.unsure, refErr{"notfound", d.Raw, d.Line})
		}
		for _, t := range targets {
			r.unsure = append(r.unsure, refErr{"cycle", t, d.Line}, refErr{"depth", t, d.Line}, refErr{"notfound", t, d.Line}, refErr{"toolarge", t, d.Line})
			if r.unsureFiles[t] {
				continue
			}
			r.unsureFiles[t] = true
			if data, ok := r.disk.Read(t); ok {
				r.markSubtreeUnsure(t, string(data), append(stack, t))
			}
		}
	}
}

// probe answers "what did the loader see when it looked at t": recorded call
// outcomes first, disk truth otherwise.
func (r *refResolver) probe(t string) (content string, status string) {
	n, okd := r.disk.Files[t]
	size := int64(-1)
	small := false
	if rec, ok := r.next("stat", t); ok {
		if rec.Err != 0 {
			return "", "missing"
		}
		size = int64(rec.Size)
		small = rec.Fault == simfs.FStatSmall
	} else {
		if !okd {
			return "", "missing"
		}
		size = int64(len(n.Data))
	}
	if size > r.maxSize {
		return "", "toolarge"
	}
	if rec, ok := r.next("read", t); ok {
		if rec.Err != 0 {
			return "", "missing"
		}
		// content as returned: a prefix of the disk content (torn) or all of it
		data := r.recordedContent(t)
		if rec.Size <= len(data) {
			data = data[:rec.Size]
		}
		if small && int64(len(data)) > r.maxSize {
			return string(data), "either-large"
		}
		return string(data), "ok"
	}
	if !okd || n.Dir || r.disk.BadRead[t] {
		return "", "missing"
	}
	return string(n.Data), "ok"
}

// recordedContent: content of t before any stat-then-delete fault removed it.
func (r *refResolver) recordedContent(t string) []byte {
	if d, ok := r.disk.Read(t); ok {
		return d
	}
	if d, ok := r.backup[t]; ok {
		return d
	}
	return nil
}

func classifyLoadErr(e include.LoadError) (refErr, bool) {
	line := e.Range.Start.Line
	switch e.Kind {
	case include.ErrorCycleDetected:
		if strings.Contains(e.Message, "depth") {
			return refErr{"depth", e.Path, line}, true
		}
		return refErr{"cycle", e.Path, line}, true
	case include.ErrorFileNotFound, include.ErrorReadError:
		return refErr{"notfound", e.Path, line}, true
	case include.ErrorFileTooLarge:
		return refErr{"toolarge", e.Path, line}, true
	case include.ErrorParseError:
		return refErr{}, false
	case include.ErrorPathTraversal:
		return refErr{"traversal", e.Path, line}, true
	}
	return refErr{"other", e.Path, line}, true
}

func (c10) Run(ctx *RunCtx) {
	c := ctx.C
	simrt.Activate(nil)
	simrt.DirectMapOrder = nil
	w := GenIncWorld(c, IncOpts{MinFiles: 1, MaxFiles: 5, Globs: true, Specials: true, EdgePct: 28, BigSize: 700})
	for _, l := range w.Describe() {
		ctx.T("%s", l)
	}
	limits := include.Limits{MaxFileSizeBytes: 600, MaxIncludeDepth: 50}
	if c.Pct("small-depth", 50) {
		limits.MaxIncludeDepth = c.Range("depth", 1, 5)
	}
	useContent := c.Pct("from-content", 30)
	ctx.T("limits: size<=%d depth<=%d; entry=%s", limits.MaxFileSizeBytes, limits.MaxIncludeDepth, map[bool]string{false: "Load", true: "LoadFromContent"}[useContent])

	// ---- faults
	backup := map[string][]byte{}
	for _, p := range w.Disk.Paths() {
		d, _ := w.Disk.Read(p)
		backup[p] = d
	}
	faultSig := ""
	oneShotAt, oneShotKind, oneShotArg := -1, simfs.FNone, 0
	if ctx.Param >= 0 {
		k := ctx.Param % (5 * c10MaxIdx)
		oneShotKind = simfs.FaultKind(1 + k/c10MaxIdx)
		oneShotAt = k % c10MaxIdx
		oneShotArg = 7 + oneShotAt // torn prefix length
		faultSig = fmt.Sprintf("enum:%d@%d", oneShotKind, oneShotAt)
	} else if c.Pct("fault-class", 50) {
		nf := c.Range("nfaults", 1, 2)
		for i := 0; i < nf; i++ {
			switch c.Choose("fault-kind", 4) {
			case 0: // sticky enoent: a file vanishes before the load
				if len(w.Files) > 1 {
					f := w.Files[1+c.Choose("victim", len(w.Files)-1)]
					w.Disk.Remove(f.Path)
					ctx.T("fault enoent (sticky): %s removed", f.Path)
					ctx.Stats.Inc("fault:enoent-sticky")
					faultSig += "E" + f.Path
				}
			case 1: // sticky eio
				if len(w.Files) > 1 {
					f := w.Files[1+c.Choose("victim", len(w.Files)-1)]
					w.Disk.BadRead[f.Path] = true
					ctx.T("fault eio (sticky): %s unreadable", f.Path)
					ctx.Stats.Inc("fault:eio-sticky")
					faultSig += "I" + f.Path
				}
			case 2: // isdir
				if len(w.Files) > 1 {
					f := w.Files[1+c.Choose("victim", len(w.Files)-1)]
					w.Disk.Remove(f.Path)
					w.Disk.Mkdir(f.Path)
					ctx.T("fault isdir: %s is now a directory", f.Path)
					ctx.Stats.Inc("fault:isdir")
					faultSig += "D" + f.Path
				}
			case 3: // one-shot at a chosen call index
				oneShotKind = simfs.FaultKind(1 + c.Choose("oneshot-kind", 5))
				oneShotAt = c.Choose("oneshot-at", 24)
				oneShotArg = c.Choose("torn-len", 120)
				faultSig += fmt.Sprintf("O%d@%d", oneShotKind, oneShotAt)
			}
		}
	}
	fired := false
	var trace []simfs.CallRec
	w.Disk.Trace = &trace
	w.Disk.Fault = func(op, p string, idx int) simfs.Fault {
		if idx > 20000 {
			panic("simfs: disk call budget exceeded (non-termination)")
		}
		if idx != oneShotAt || oneShotKind == simfs.FNone {
			return simfs.Fault{}
		}
		k := oneShotKind
		// a fault only makes sense on the matching operation
		switch k {
		case simfs.FEio, simfs.FTorn:
			if op != "read" {
				return simfs.Fault{}
			}
		case simfs.FStatSmall:
			if op != "stat" {
				return simfs.Fault{}
			}
		case simfs.FDelAfter:
			if op != "stat" {
				return simfs.Fault{}
			}
		case simfs.FEnoent:
			if op != "stat" && op != "read" {
				return simfs.Fault{}
			}
		}
		fired = true
		return simfs.Fault{Kind: k, Arg: oneShotArg}
	}
	simfs.Active = w.Disk
	root := w.Files[0]
	rootText := root.Text
	if useContent && c.Bool("content-differs") {
		// unsaved buffer: drop the first include line, add one to a.journal
		rootText = strings.Replace(rootText, "include ", "; was include ", 1)
		if len(w.Files) > 1 {
			rootText += "include " + relPath(path.Dir(root.Path), w.Files[len(w.Files)-1].Path) + "\n"
		}
	}

	// ---- system under test
	l := include.NewLoader()
	l.SetLimits(limits)
	var res *include.ResolvedJournal
	var errs []include.LoadError
	crashed := ""
	func() {
		defer func() {
			if r := recover(); r != nil {
				crashed = fmt.Sprint(r)
			}
		}()
		if useContent {
			res, errs = l.LoadFromContent(root.Path, rootText)
		} else {
			res, errs = l.Load(root.Path)
		}
	}()
	w.Disk.Fault = nil
	w.Disk.Trace = nil
	if fired {
		ctx.Stats.Inc("fault:" + map[simfs.FaultKind]string{simfs.FEnoent: "enoent-oneshot", simfs.FEio: "eio-oneshot", simfs.FTorn: "torn", simfs.FStatSmall: "toctou-grow", simfs.FDelAfter: "toctou-del"}[oneShotKind])
		ctx.T("one-shot fault kind %d fired at disk call %d", oneShotKind, oneShotAt)
	}
	for _, r := range trace {
		ctx.T("  disk#%d %s %s -> err=%d size=%d fault=%d", r.Idx, r.Op, r.Path, r.Err, r.Size, r.Fault)
	}
	edges := 0
	for _, f := range w.Files {
		edges += len(f.Incs)
	}
	ctx.NonTrivial = edges >= 1 && len(trace) >= 2 && (ctx.Param < 0 || fired)
	var shape []string
	for _, f := range w.Files {
		for _, d := range f.Incs {
			shape = append(shape, f.Path+">"+d.Raw)
		}
	}
	ctx.SigExtra = fmt.Sprintf("%s#%d/%v#%s", strings.Join(shape, "|"), limits.MaxIncludeDepth, useContent, faultSig)
	ctx.Stats.State("c10", strings.Join(shape, "|"), limits.MaxIncludeDepth)
	fail := func(class, msg string) {
		ctx.T("  VERDICT %s: %s", class, msg)
		ctx.Fail(&Violation{Property: "C10", Oracle: "reachability-model", Class: class, Msg: msg})
	}
	if crashed != "" {
		if strings.Contains(crashed, "budget") {
			fail("non-termination", "resolution did not terminate within 20000 disk calls: "+crashed)
		} else {
			fail("crash", "loader panicked: "+crashed)
		}
		return
	}

	// ---- reference
	ref := &refResolver{disk: w.Disk, home: w.Home, maxSize: limits.MaxFileSizeBytes, maxDepth: limits.MaxIncludeDepth,
		calls: map[string][]simfs.CallRec{}, loaded: map[string]bool{root.Path: true}, unsureFiles: map[string]bool{}, backup: backup, unknownLines: map[int]bool{}, unknownErrLines: map[int]bool{}}
	for _, r := range trace {
		k := r.Op + " " + r.Path
		ref.calls[k] = append(ref.calls[k], r)
	}
	if !useContent {
		// Load(root): the root itself is stat'ed and read first
		st, okS := ref.next("stat", root.Path)
		if !okS || st.Err != 0 || int64(st.Size) > limits.MaxFileSizeBytes {
			if res != nil {
				fail("root", "root could not be read or is too large, yet a result was returned")
			}
			return
		}
		rd, okR := ref.next("read", root.Path)
		if !okR || rd.Err != 0 {
			if res != nil {
				fail("root", "root read failed, yet a result was returned")
			}
			return
		}
		if rd.Size < len(rootText) {
			rootText = rootText[:rd.Size]
		}
	} else if int64(len(rootText)) > limits.MaxFileSizeBytes {
		return
	}
	if res == nil {
		fail("root", fmt.Sprintf("no result for a readable root; errors=%s", errList(errs)))
		return
	}
	ref.resolve(root.Path, rootText, []string{root.Path})

	// files: each once, exactly the reachable ones (modulo unsure ones)
	seen := map[string]int{}
	for _, p := range res.FileOrder {
		seen[p]++
	}
	for _, p := range keysOf(seen) {
		n := seen[p]
		if n > 1 {
			fail("duplicate", fmt.Sprintf("%s appears %d times in FileOrder %v", p, n, res.FileOrder))
			return
		}
		if _, ok := res.Files[p]; !ok {
			fail("order-vs-files", fmt.Sprintf("%s is in FileOrder but not in Files", p))
			return
		}
	}
	for _, p := range keysOf(res.Files) {
		if seen[p] == 0 {
			fail("order-vs-files", fmt.Sprintf("%s is in Files but not in FileOrder", p))
			return
		}
	}
	var missing, extra []string
	for _, p := range ref.order {
		if _, ok := res.Files[p]; !ok {
			missing = append(missing, p)
		}
	}
	for p := range res.Files {
		if !ref.loaded[p] && !ref.unsureFiles[p] && len(ref.unknownLines) == 0 {
			extra = append(extra, p)
		}
	}
	sort.Strings(missing)
	sort.Strings(extra)
	if len(missing) > 0 || len(extra) > 0 {
		cls := "files-missing"
		if len(missing) == 0 {
			cls = "files-extra"
		}
		fail(cls, fmt.Sprintf("resolved file set differs from reachability: missing=%v extra=%v (loader: %v; model: %v); loader errors=%s", missing, extra, res.FileOrder, ref.order, errList(errs)))
		return
	}
	// errors: multiset equality modulo unsure ones
	want := map[refErr]int{}
	for _, e := range ref.errs {
		want[e]++
	}
	unsure := map[refErr]bool{}
	for _, e := range ref.unsure {
		unsure[e] = true
	}
	got := map[refErr]int{}
	for _, e := range errs {
		if re, ok := classifyLoadErr(e); ok {
			got[re]++
		}
	}
	var diffs []string
	cls := ""
	var wantKeys, gotKeys []refErr
	for e := range want {
		wantKeys = append(wantKeys, e)
	}
	for e := range got {
		gotKeys = append(gotKeys, e)
	}
	less := func(a, b refErr) bool { return a.String() < b.String() }
	sort.Slice(wantKeys, func(i, j int) bool { return less(wantKeys[i], wantKeys[j]) })
	sort.Slice(gotKeys, func(i, j int) bool { return less(gotKeys[i], gotKeys[j]) })
	for _, e := range wantKeys {
		n := want[e]
		if got[e] != n && !(unsure[e] && got[e] >= n) {
			diffs = append(diffs, fmt.Sprintf("want %dx %v, got %d", n, e, got[e]))
			if cls == "" {
				cls = "err-" + e.Kind + "-missing"
			}
		}
	}
	for _, e := range gotKeys {
		if want[e] == 0 && !unsure[e] && !ref.unknownLines[e.Line] && !ref.unknownErrLines[e.Line] {
			diffs = append(diffs, fmt.Sprintf("unexpected %dx %v", got[e], e))
			if cls == "" {
				cls = "err-" + e.Kind + "-unexpected"
			}
		}
	}
	if len(diffs) > 0 {
		sort.Strings(diffs)
		fail(cls, fmt.Sprintf("include diagnostics differ from the model: %s; loader errors=%s", strings.Join(diffs, "; "), errList(errs)))
	}
}
