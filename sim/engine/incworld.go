package engine

import (
	"fmt"
	"path"
	"sort"
	"strings"

	"github.com/juev/hledger-lsp/internal/verifsim/simfs"
	"github.com/juev/hledger-lsp/internal/verifsim/simrt"
)

// IncDirective is one include line as the generator wrote it.
type IncDirective struct {
	Line    int      // 1-based line of the directive in its file
	Raw     string   // path text as written
	Form    string   // rel, dot, abs, home, glob, globstar, dangling, dir, big
	Targets []string // absolute paths the generator intends it to name (sorted for globs)
}

// IncFile is one generated journal file.
type IncFile struct {
	Path string
	Incs []IncDirective
	Text string
}

// IncWorld is a generated include graph on the simulated disk.
type IncWorld struct {
	Disk  *simfs.Disk
	Files []*IncFile // index 0 is the root
	Extra []string   // non-journal or special paths (directory named like a journal, oversized file)
	Home  string
}

var incPaths = []string{
	"/sim/ws/main.journal",
	"/sim/ws/a.journal",
	"/sim/ws/b.journal",
	"/sim/ws/sub/c.journal",
	"/sim/ws/sub/d.journal",
}

type IncOpts struct {
	MinFiles, MaxFiles int
	Globs              bool
	Specials           bool // dangling targets, directory named like a journal, oversized file
	EdgePct            int
	BigSize            int // size of the oversized file
}

func relPath(fromDir, to string) string {
	// both absolute and clean
	fd := strings.Split(strings.Trim(fromDir, "/"), "/")
	tt := strings.Split(strings.Trim(to, "/"), "/")
	i := 0
	for i < len(fd) && i < len(tt)-1 && fd[i] == tt[i] {
		i++
	}
	var parts []string
	for j := i; j < len(fd); j++ {
		parts = append(parts, "..")
	}
	parts = append(parts, tt[i:]...)
	return strings.Join(parts, "/")
}

func fileBody(i int, incs []IncDirective, extra string) string {
	var b strings.Builder
	fmt.Fprintf(&b, "; file %d\n", i)
	for _, d := range incs {
		_ = d
	}
	return b.String() + extra
}

// GenIncWorld draws an include graph.
func GenIncWorld(c *simrt.Chooser, o IncOpts) *IncWorld {
	w := &IncWorld{Disk: simfs.NewDisk(), Home: "/sim"}
	w.Disk.Env["HOME"] = w.Home
	n := c.Range("nfiles", o.MinFiles, o.MaxFiles)
	for i := 0; i < n; i++ {
		w.Files = append(w.Files, &IncFile{Path: incPaths[i]})
	}
	if o.Specials {
		if c.Pct("special-dir", 30) {
			w.Disk.Mkdir("/sim/ws/dir.journal")
			w.Extra = append(w.Extra, "/sim/ws/dir.journal")
		}
		if c.Pct("special-big", 30) {
			size := o.BigSize
			if size <= 0 {
				size = 600
			}
			w.Disk.WriteFile("/sim/ws/big.journal", []byte(strings.Repeat("; padding padding padding\n", size/26+1)))
			w.Extra = append(w.Extra, "/sim/ws/big.journal")
		}
	}
	// decide edges first (targets by file index), then render
	type edge struct {
		to   int // -1 dangling, -2 dir, -3 big, -4 glob, -5 globstar
		form int
	}
	edges := make([][]edge, n)
	for i := 0; i < n; i++ {
		for j := 0; j < n; j++ {
			if c.Pct("edge", o.EdgePct) {
				edges[i] = append(edges[i], edge{to: j, form: c.Choose("form", 4)})
			}
		}
		if o.Globs && c.Pct("glob", 20) {
			edges[i] = append(edges[i], edge{to: -4 - c.Choose("globkind", 2)})
		}
		if o.Specials {
			if c.Pct("dangling", 15) {
				edges[i] = append(edges[i], edge{to: -1})
			}
			if len(w.Extra) > 0 && c.Pct("special-edge", 25) {
				x := pick(c, "special-which", w.Extra)
				if strings.HasSuffix(x, "dir.journal") {
					edges[i] = append(edges[i], edge{to: -2})
				} else {
					edges[i] = append(edges[i], edge{to: -3})
				}
			}
		}
		// order of directives in the file
		if len(edges[i]) > 1 {
			p := c.Perm("edge-order", len(edges[i]))
			ne := make([]edge, len(edges[i]))
			for k, q := range p {
				ne[k] = edges[i][q]
			}
			edges[i] = ne
		}
	}
	// write placeholder files first so that glob target sets can be computed
	for _, f := range w.Files {
		w.Disk.WriteFile(f.Path, nil)
	}
	for i, f := range w.Files {
		dir := path.Dir(f.Path)
		var b strings.Builder
		line := 1
		fmt.Fprintf(&b, "; file %d\n", i)
		line++
		if c.Pct("txn-first", 50) {
			fmt.Fprintf(&b, "2024-01-%02d pre%d\n    f%d:pre  1 USD\n    f%d:sink\n\n", i+1, i, i, i)
			line += 4
		}
		for _, e := range edges[i] {
			d := IncDirective{Line: line}
			switch {
			case e.to >= 0:
				t := w.Files[e.to].Path
				switch e.form {
				case 0:
					d.Form, d.Raw = "rel", relPath(dir, t)
				case 1:
					d.Form, d.Raw = "dot", "./"+relPath(dir, t)
				case 2:
					d.Form, d.Raw = "abs", t
				case 3:
					d.Form, d.Raw = "home", "~/"+relPath(w.Home, t)
				}
				d.Targets = []string{t}
			case e.to == -1:
				d.Form, d.Raw = "dangling", "missing.journal"
				d.Targets = []string{path.Join(dir, "missing.journal")}
			case e.to == -2:
				d.Form, d.Raw = "dir", relPath(dir, "/sim/ws/dir.journal")
				d.Targets = []string{"/sim/ws/dir.journal"}
			case e.to == -3:
				d.Form, d.Raw = "big", relPath(dir, "/sim/ws/big.journal")
				d.Targets = []string{"/sim/ws/big.journal"}
			case e.to == -4:
				d.Form, d.Raw = "glob", "*.journal"
				d.Targets = globTargets(w.Disk, dir, false, f.Path)
			case e.to == -5:
				d.Form = "globstar"
				if c.Bool("hledger-star") {
					d.Raw = "<->/*.journal"
				} else {
					d.Raw = "**/*.journal"
				}
				d.Targets = globTargets(w.Disk, dir, true, f.Path)
			}
			fmt.Fprintf(&b, "include %s\n", d.Raw)
			line++
			f.Incs = append(f.Incs, d)
		}
		fmt.Fprintf(&b, "\n2024-02-%02d payee%d\n    f%d:acct  %d USD\n    f%d:sink\n", i+1, i, i, i+1, i)
		f.Text = b.String()
	}
	for _, f := range w.Files {
		w.Disk.WriteFile(f.Path, []byte(f.Text))
	}
	return w
}

// globTargets lists what "*.journal" (deep=false) or "**/*.journal" (deep=true)
// names relative to dir on the disk, excluding the including file, sorted.
func globTargets(d *simfs.Disk, dir string, deep bool, self string) []string {
	var out []string
	pre := dir + "/"
	for p := range d.Files {
		if !strings.HasPrefix(p, pre) || !strings.HasSuffix(p, ".journal") || p == self {
			continue
		}
		rest := p[len(pre):]
		if !deep && strings.Contains(rest, "/") {
			continue
		}
		out = append(out, p)
	}
	sort.Strings(out)
	return out
}

func (w *IncWorld) Describe() []string {
	var out []string
	for _, f := range w.Files {
		var incs []string
		for _, d := range f.Incs {
			incs = append(incs, fmt.Sprintf("L%d include %s (%s)", d.Line, d.Raw, d.Form))
		}
		out = append(out, fmt.Sprintf("file %s: %s", f.Path, strings.Join(incs, "; ")))
	}
	for _, x := range w.Extra {
		out = append(out, "special "+x)
	}
	return out
}
