//go:build verifsim

package engine

import (
	"encoding/json"
	"regexp"

	"github.com/juev/hledger-lsp/internal/verifsim/simrt"
)

// RefDoc is one open document of the canonical history.
type RefDoc struct {
	URI  string
	Text string
	// PrevText, when non-empty, makes the reference lag for this document: it
	// is opened with PrevText, analysed, then changed to Text with the
	// background task of that change held back.
	PrevText string
}

// RefSpec describes the client-visible state a fresh reference server is
// brought to (DESIGN 5.14): same disk clone, same effective settings, then for
// every open document, in the original open order, didOpen(current text).
type RefSpec struct {
	Env         *Env
	Init        J
	Config      any // answer to workspace/configuration (nil: requests answered with an empty list)
	Docs        []RefDoc
	Cold        bool // no background task of the document opens runs
	Initialized bool
}

// Ref is a running reference server.
type Ref struct {
	D *Driver
}

// autoAnswer answers every pending workspace/configuration request.
func (r *Ref) autoAnswer(cfg any) {
	for {
		ids := r.D.Sess.PendingServerRequests()
		if len(ids) == 0 {
			return
		}
		for _, id := range ids {
			if cfg == nil {
				r.D.Sess.Respond(id, []any{}, nil)
			} else {
				r.D.Sess.Respond(id, []any{cfg}, nil)
			}
		}
		r.D.Quiesce()
	}
}

// StartRef builds the reference.  The caller must Resume() its own driver
// afterwards.
func StartRef(ctx *RunCtx, spec RefSpec) *Ref {
	zero := simrt.NewReplayChooser(nil)
	d := NewDriver(ctx, zero, spec.Env, PolBgFirst, "ref", simrt.NewLog(false))
	r := &Ref{D: d}
	d.Call("initialize", spec.Init)
	if spec.Initialized {
		d.Notify("initialized", J{})
		d.Quiesce()
		r.autoAnswer(spec.Config)
	}
	for _, doc := range spec.Docs {
		if spec.Cold {
			d.Policy = PolDispOnly
		}
		text := doc.Text
		if doc.PrevText != "" {
			text = doc.PrevText
		}
		d.Notify("textDocument/didOpen", J{"textDocument": J{"uri": doc.URI, "languageId": "hledger", "version": 1, "text": text}})
		d.Quiesce()
		r.autoAnswer(spec.Config)
		if doc.PrevText != "" {
			d.Policy = PolDispOnly
			d.Notify("textDocument/didChange", J{"textDocument": J{"uri": doc.URI, "version": 2}, "contentChanges": []J{{"text": doc.Text}}})
			d.Quiesce()
			if !spec.Cold {
				// later documents are analysed normally; the held task stays held
				d.Policy = PolBgFirstExcept
				d.held = map[int]bool{}
				for _, t := range d.S.Tasks {
					if t.State != simrt.StDone && d.isBg(t) {
						d.held[t.ID] = true
					}
				}
			}
		}
	}
	return r
}

// Ask sends the request to the reference and returns the canonical response.
func (r *Ref) Ask(method string, params any) string {
	m := r.D.Call(method, params)
	if m == nil {
		return "<no response>"
	}
	return CanonResponse(m.Result, m.Error)
}

func (r *Ref) Close() { r.D.Teardown() }

var resultIDRe = regexp.MustCompile(`"resultId":"[^"]*"`)

// CanonResponse is the canonical serialisation used for equality: canonical
// JSON of result (or error), with opaque semantic-token result ids blanked.
func CanonResponse(result, errObj json.RawMessage) string {
	s := canon(result)
	if len(errObj) > 0 && string(errObj) != "null" {
		s = "error:" + canon(errObj)
	}
	return resultIDRe.ReplaceAllString(s, `"resultId":"*"`)
}
