package engine

import (
	"fmt"
	"strings"

	"github.com/juev/hledger-lsp/internal/verifsim/simrt"
)

// Journal profile (DESIGN 4.3): a conservative sub-grammar of G.  Lower-case
// ASCII payees, accounts of 2..3 lower-case ASCII segments, amounts
// "[-]digits[.digits] CODE", optional tags, account / commodity / include
// directives.  Every generated line carries its occurrence table.

type Occ struct {
	Kind  string // account, commodity, payee, tag
	Name  string
	Start int // 0-based column (ASCII: bytes == UTF-16 units)
	End   int
	Decl  bool // occurrence inside an account/commodity directive
}

type GLine struct {
	Text string
	Occs []Occ
}

type GFile struct {
	Path  string
	Lines []GLine
}

func (f *GFile) Text() string {
	var b strings.Builder
	for _, l := range f.Lines {
		b.WriteString(l.Text)
		b.WriteByte('\n')
	}
	return b.String()
}

var (
	poolPayees   = []string{"grocer", "landlord", "cafe luna", "employer", "bookshop"}
	poolAccounts = []string{"expenses:food", "expenses:rent", "assets:bank", "assets:cash", "income:salary", "expenses:books:tech", "liabilities:card"}
	poolCommods  = []string{"USD", "EUR", "BTC"}
	poolTags     = []string{"trip", "project", "client"}
	poolTagVals  = []string{"paris", "alpha", "acme", "beta"}
	commodityFmt = map[string]string{"USD": "1,000.00 USD", "EUR": "1.000,00 EUR", "BTC": "1.00000000 BTC"}
)

func line(text string, occs ...Occ) GLine { return GLine{Text: text, Occs: occs} }

// GenTxn draws one transaction (2..3 postings, balanced in one commodity unless
// unbalanced is requested).
func GenTxn(c *simrt.Chooser, day int, pools *Pools) []GLine {
	payee := pick(c, "payee", pools.Payees)
	date := fmt.Sprintf("2024-%02d-%02d", 1+day/28%12, 1+day%28)
	status := []string{"", "* ", "! "}[c.Weighted("status", []int{4, 1, 1})]
	head := date + " " + status
	ps := len(head)
	head += payee
	occs := []Occ{{Kind: "payee", Name: payee, Start: ps, End: ps + len(payee)}}
	if c.Pct("note", 20) {
		head += " | note"
	}
	if c.Pct("txn-tag", 30) {
		tag, val := pick(c, "tag", pools.Tags), pick(c, "tagval", pools.TagVals)
		head += "  ; "
		ts := len(head)
		head += tag + ":" + val
		occs = append(occs, Occ{Kind: "tag", Name: tag, Start: ts, End: ts + len(tag)})
	}
	out := []GLine{line(head, occs...)}
	commod := pick(c, "commodity", pools.Commods)
	amt := 1 + c.Choose("amount", 200)
	frac := ""
	if c.Pct("frac", 40) {
		frac = fmt.Sprintf(".%02d", c.Choose("cents", 100))
	}
	a1 := pick(c, "acct1", pools.Accounts)
	a2 := pick(c, "acct2", pools.Accounts)
	posting := func(acct, amount, com string) GLine {
		t := "    " + acct
		o := []Occ{{Kind: "account", Name: acct, Start: 4, End: 4 + len(acct)}}
		if amount != "" {
			t += "  " + amount + " "
			cs := len(t)
			t += com
			o = append(o, Occ{Kind: "commodity", Name: com, Start: cs, End: cs + len(com)})
		}
		return line(t, o...)
	}
	out = append(out, posting(a1, fmt.Sprintf("%d%s", amt, frac), commod))
	if c.Pct("third-posting", 25) {
		a3 := pick(c, "acct3", pools.Accounts)
		out = append(out, posting(a3, "1", commod))
	}
	if c.Pct("explicit-second", 30) {
		out = append(out, posting(a2, fmt.Sprintf("-%d%s", amt, frac), commod))
	} else {
		out = append(out, posting(a2, "", ""))
	}
	return out
}

// Pools are the names a generated world draws from (shared between files on
// purpose: that is where aggregation defects live).
type Pools struct {
	Payees, Accounts, Commods, Tags, TagVals []string
}

func DefaultPools() *Pools {
	return &Pools{Payees: poolPayees, Accounts: poolAccounts, Commods: poolCommods, Tags: poolTags, TagVals: poolTagVals}
}

// GenJournalBody draws directives + transactions for one file.  includes are
// raw include paths to write (in order).
func GenJournalBody(c *simrt.Chooser, pools *Pools, includes []string, fileNo int) []GLine {
	var out []GLine
	out = append(out, line(fmt.Sprintf("; journal %d", fileNo)))
	if c.Pct("decl-account", 35) {
		n := 1 + c.Choose("ndecl", 2)
		for i := 0; i < n; i++ {
			a := pick(c, "decl-acct", pools.Accounts)
			out = append(out, line("account "+a, Occ{Kind: "account", Name: a, Start: 8, End: 8 + len(a), Decl: true}))
		}
	}
	if c.Pct("decl-commodity", 35) {
		cm := pick(c, "decl-com", pools.Commods)
		f := commodityFmt[cm]
		st := strings.LastIndex(f, cm)
		out = append(out, line("commodity "+f, Occ{Kind: "commodity", Name: cm, Start: 10 + st, End: 10 + st + len(cm), Decl: true}))
	}
	for _, inc := range includes {
		out = append(out, line("include "+inc))
	}
	out = append(out, line(""))
	nt := c.Range("ntxn", 0, 3)
	for i := 0; i < nt; i++ {
		out = append(out, GenTxn(c, c.Choose("day", 300), pools)...)
		out = append(out, line(""))
	}
	// the same transaction, verbatim, once or twice in this file and possibly in
	// others too: entries of the transaction index that differ only in the file
	// (and, within a file, only in the line)
	if n := c.Weighted("same-txn", []int{5, 2, 2}); n > 0 {
		for i := 0; i < n; i++ {
			out = append(out,
				line("2024-01-02 recurring", Occ{Kind: "payee", Name: "recurring", Start: 11, End: 20}),
				line("    expenses:rent  500 USD", Occ{Kind: "account", Name: "expenses:rent", Start: 4, End: 17}, Occ{Kind: "commodity", Name: "USD", Start: 23, End: 26}),
				line("    assets:bank", Occ{Kind: "account", Name: "assets:bank", Start: 4, End: 15}),
				line(""))
		}
	}
	return out
}
