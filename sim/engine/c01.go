//go:build verifsim

package engine

import (
	"encoding/json"
	"fmt"
	"regexp"
	"strconv"
	"strings"

	"github.com/juev/hledger-lsp/internal/verifsim/simrt"
)

// C01: document mirror fidelity under any edit history, and no answer from a
// superseded version.
type c01 struct{}

func init() { Register(c01{}) }

func (c01) Name() string { return "c01" }
func (c01) Rule() string {
	return "full-server simulation over the wire: histories of 5..40 client operations on 1..3 URIs: didOpen / didChange (1..4 content changes each; shapes: range-less, insertion, replace/delete inside a line, across line breaks, empty range at 0:0, end past end of line, end past end of document, deleting/creating line breaks, start past end of line) / didClose / re-open / didSave, interleaved with feature requests, with the server's background tasks scheduled anywhere (7 policies) and inbound bytes chunked. Text-profile documents: ASCII, BMP and non-BMP characters, LF or CRLF, empty, with/without final newline. Oracle 1 (mirror): after EVERY notification verif/getDocument must equal a reference UTF-16 client buffer, code unit for code unit. Oracle 2 (no older version): journal-profile documents carry version markers; no response to a request on document d may contain a marker of an older version of d (with a workspace: of any open document). Non-trivial: >= 1 ranged change applied and >= 1 feature request answered. Distinct: hash of (edit shapes, operation kinds, schedule signature)."
}
func (c01) Enumerated(string) int            { return 0 }
func (c01) Components() ([]string, []string) { return serverComponents() }

var markerRe = regexp.MustCompile(`d(\d+)(?::| )v(\d+)`)

type cdoc struct {
	No      int
	URI     string
	Path    string
	Open    bool
	Buf     Buf
	EOL     string
	LSPVer  int
	Journal bool // journal profile with markers (tracked)
	Marker  int  // current marker version
	Disk    int  // marker version on disk (-1 = not on disk)
	Extra   string
}

func (c01) Run(ctx *RunCtx) {
	c := ctx.C
	env := NewEnv()
	env.Disk.Env["HOME"] = "/sim"
	workspace := c.Bool("workspace")
	policy := c.Choose("policy", numPolicies)
	docs := []*cdoc{
		{No: 1, URI: "file:///sim/ws/main.journal", Path: "/sim/ws/main.journal", Journal: true, Extra: "include a.journal\n"},
		{No: 2, URI: "file:///sim/ws/a.journal", Path: "/sim/ws/a.journal", Journal: true},
		{No: 3, URI: "file:///sim/ws/notes.journal", Path: "/sim/ws/notes.journal", Disk: -1},
		// a buffer without a file behind it
		{No: 4, URI: "untitled:Untitled-1", Path: "", Disk: -1},
	}
	for _, d := range docs[:2] {
		env.Disk.WriteFile(d.Path, []byte(StampText(d.No, 0, d.Extra)))
	}
	d := NewDriver(ctx, c, env, policy, "sut", ctx.Log)
	if c.Pct("map-permute", 25) {
		d.MapSalt = uint64(1 + c.Choose("map-salt", 1<<16))
	}
	if c.Pct("chunking", 40) {
		d.Sess.Chunk = func(max int) int { return 1 + c.Choose("chunk", max) }
	}
	root := ""
	if workspace {
		root = "/sim/ws"
	}
	ctx.T("policy=%s workspace=%v", policyNames[policy], workspace)
	failed := false
	fail := func(oracle, class, msg string, wit map[string]any) bool {
		ctx.T("VERDICT %s/%s: %s", oracle, class, msg)
		known := ctx.Fail(&Violation{Property: "C01", Oracle: oracle, Class: class, Msg: msg, Witness: wit})
		if !known {
			failed = true
		}
		return known
	}
	defer d.Teardown()
	if r := d.Call("initialize", InitParams(root, c.Bool("folders"), false, nil)); r == nil {
		fail("liveness", "no-initialize-response", "initialize was not answered", nil)
		return
	}
	d.Notify("initialized", J{})
	d.PumpN(c.Choose("steps", 30))

	ranged, answered := 0, 0
	var shapes []string
	lastPublished := map[string]int{} // uri -> marker version of the last publish received
	d.OnMsg = nil
	var lastEdits []Edit
	var lastBefore string
	checkMirror := func(doc *cdoc, after string) bool {
		r := d.Call("verif/getDocument", J{"uri": doc.URI})
		if r == nil {
			fail("mirror", "no-response", "verif/getDocument was not answered after "+after, nil)
			return false
		}
		var got struct {
			Present bool   `json:"present"`
			Text    string `json:"text"`
		}
		json.Unmarshal(r.Result, &got)
		if got.Present != doc.Open {
			fail("mirror", "presence", fmt.Sprintf("after %s the server holds the document: %v, a client holds it: %v", after, got.Present, doc.Open), nil)
			return false
		}
		if !doc.Open {
			return true
		}
		want := doc.Buf.String()
		if got.Text != want {
			known := fail("mirror", "text-differs", fmt.Sprintf("after %s of d%d the server's text differs from the client's buffer: server=%q client=%q", after, doc.No, trunc(got.Text, 200), trunc(want, 200)),
				map[string]any{"after": after, "server": got.Text, "client": want, "before": lastBefore, "edits": lastEdits})
			if known {
				// adopt the server's state so that later, different mismatches are still seen
				doc.Buf = BufOf(got.Text)
				doc.Journal = false
				return true
			}
			return false
		}
		return true
	}
	// marker oracle over a response
	checkMarkers := func(reqDoc *cdoc, method string, r json.RawMessage) {
		if len(r) == 0 {
			return
		}
		for _, m := range markerRe.FindAllStringSubmatch(string(r), -1) {
			dn, _ := strconv.Atoi(m[1])
			vn, _ := strconv.Atoi(m[2])
			if dn < 1 || dn > len(docs) {
				continue
			}
			od := docs[dn-1]
			if !od.Journal {
				continue
			}
			judged := od == reqDoc || workspace
			if !judged {
				continue
			}
			cur := od.Disk
			if od.Open {
				cur = od.Marker
			}
			if vn < cur {
				fail("no-older-version", "stale-"+strings.TrimPrefix(method, "textDocument/"),
					fmt.Sprintf("%s on d%d answered with content of d%d version %d while that document is at version %d (last diagnostics received for it: v%d)", method, reqDoc.No, dn, vn, cur, lastPublished[od.URI]),
					map[string]any{"method": method, "reqDoc": reqDoc.No, "doc": dn, "stale": vn, "current": cur, "workspace": workspace, "lastPublished": lastPublished[od.URI], "self": od == reqDoc})
				return
			}
		}
	}
	notePublishes := func() {
		for i := range d.Sess.Out {
			m := &d.Sess.Out[i]
			if m.Method == "textDocument/publishDiagnostics" {
				u, marks := publishMarkers(m.Params)
				if len(marks) > 0 {
					lastPublished[u] = marks[len(marks)-1] - 1
				}
			}
		}
	}
	nops := c.Range("nops", 5, 40)
	for op := 0; op < nops && !failed; op++ {
		doc := docs[c.Choose("doc", len(docs))]
		if d.Livelock {
			break
		}
		if !doc.Open {
			// open (or re-open); a client is free to number the versions of a
			// re-opened document from 1 again
			doc.LSPVer++
			if doc.LSPVer > 1 && c.Pct("version-restarts", 50) {
				doc.LSPVer = 1
			}
			if doc.Journal || (doc.No != 3 && c.Pct("journal-profile", 70)) {
				doc.Journal = true
				doc.Marker++
				text := StampText(doc.No, doc.Marker, doc.Extra)
				doc.Buf, doc.EOL = BufOf(text), "\n"
			} else {
				text, eol := GenText(c)
				doc.Buf, doc.EOL = BufOf(text), eol
				doc.Journal = false
			}
			doc.Open = true
			d.Notify("textDocument/didOpen", J{"textDocument": J{"uri": doc.URI, "languageId": "hledger", "version": doc.LSPVer, "text": doc.Buf.String()}})
			ctx.T("op%d didOpen d%d journal=%v eol=%q text=%q", op, doc.No, doc.Journal, doc.EOL, trunc(doc.Buf.String(), 120))
			shapes = append(shapes, "open")
			d.PumpN(c.Choose("steps", 10))
			if !checkMirror(doc, "didOpen") {
				break
			}
			continue
		}
		switch c.Weighted("op", []int{10, 2, 1, 8}) {
		case 0: // didChange
			doc.LSPVer++
			var changes []J
			var desc []string
			lastEdits, lastBefore = nil, doc.Buf.String()
			if doc.Journal && c.Pct("marker-edit", 80) {
				// structured edit: the whole stamp text is replaced by the next version,
				// range-less or through a whole-document range
				doc.Marker++
				text := StampText(doc.No, doc.Marker, doc.Extra)
				if c.Bool("ranged") {
					lens := doc.Buf.LineLens()
					changes = append(changes, J{"range": rng(0, 0, len(lens)-1, lens[len(lens)-1]), "text": text})
					lastEdits = append(lastEdits, Edit{HasRange: true, L2: len(lens) - 1, C2: lens[len(lens)-1], Text: text})
					doc.Buf = doc.Buf.Apply(true, 0, 0, len(lens)-1, lens[len(lens)-1], text)
					desc = append(desc, "marker: whole-document range")
					ranged++
				} else {
					changes = append(changes, J{"text": text})
					lastEdits = append(lastEdits, Edit{Text: text})
					doc.Buf = BufOf(text)
					desc = append(desc, "marker: range-less")
				}
			} else {
				n := 1 + c.Weighted("nchanges", []int{6, 2, 1, 1})
				for i := 0; i < n; i++ {
					e := GenEdit(c, doc.Buf, doc.EOL)
					changes = append(changes, e.JSON())
					lastEdits = append(lastEdits, e)
					doc.Buf = doc.Buf.Apply(e.HasRange, e.L1, e.C1, e.L2, e.C2, e.Text)
					desc = append(desc, fmt.Sprintf("%s [%d:%d-%d:%d] %q", e.Shape, e.L1, e.C1, e.L2, e.C2, trunc(e.Text, 40)))
					shapes = append(shapes, e.Shape)
					if e.HasRange {
						ranged++
					}
				}
				if doc.Journal {
					doc.Journal = false // raw edit: markers no longer tracked
				}
			}
			d.Notify("textDocument/didChange", J{"textDocument": J{"uri": doc.URI, "version": doc.LSPVer}, "contentChanges": changes})
			ctx.T("op%d didChange d%d: %s", op, doc.No, strings.Join(desc, " ; "))
			d.PumpN(c.Choose("steps", 10))
			if !checkMirror(doc, "didChange ("+strings.Join(desc, " ; ")+")") {
				break
			}
		case 1: // didClose
			d.Notify("textDocument/didClose", J{"textDocument": docID(doc.URI)})
			doc.Open = false
			ctx.T("op%d didClose d%d", op, doc.No)
			shapes = append(shapes, "close")
			d.PumpN(c.Choose("steps", 6))
			if !checkMirror(doc, "didClose") {
				break
			}
		case 2: // didSave: the client writes its buffer first, as editors do
			if doc.Path == "" {
				continue
			}
			env.Disk.WriteFile(doc.Path, []byte(doc.Buf.String()))
			if doc.Journal {
				doc.Disk = doc.Marker
			} else {
				doc.Disk = -1
			}
			d.Notify("textDocument/didSave", J{"textDocument": docID(doc.URI)})
			ctx.T("op%d didSave d%d", op, doc.No)
			shapes = append(shapes, "save")
			d.PumpN(c.Choose("steps", 6))
			if !checkMirror(doc, "didSave") {
				break
			}
		case 3: // feature request on this document
			lens := doc.Buf.LineLens()
			l := c.Choose("req-line", len(lens))
			ch := c.Choose("req-col", lens[l]+1)
			if doc.Journal && c.Pct("on-marker", 60) {
				// on the stamp posting's account (line 2 or 3 depending on Extra)
				base := 1 + strings.Count(doc.Extra, "\n")
				l, ch = base+1, 6
				if c.Bool("on-payee") {
					l, ch = base, 13
				}
			}
			td := J{"textDocument": docID(doc.URI), "position": pos(l, ch)}
			var method string
			var params J
			switch c.Choose("feature", 11) {
			case 0:
				method, params = "textDocument/completion", td
			case 1:
				method, params = "textDocument/hover", td
			case 2:
				method, params = "textDocument/definition", td
			case 3:
				method, params = "textDocument/references", J{"textDocument": docID(doc.URI), "position": pos(l, ch), "context": J{"includeDeclaration": c.Bool("incl-decl")}}
			case 4:
				method, params = "textDocument/documentSymbol", J{"textDocument": docID(doc.URI)}
			case 5:
				method, params = "textDocument/formatting", J{"textDocument": docID(doc.URI), "options": J{"tabSize": 4, "insertSpaces": true}}
			case 6:
				method, params = "textDocument/foldingRange", J{"textDocument": docID(doc.URI)}
			case 7:
				method, params = "textDocument/semanticTokens/full", J{"textDocument": docID(doc.URI)}
			case 8:
				method, params = "textDocument/inlineCompletion", td
				if doc.Journal {
					// the empty line after the header being typed (last header of StampText)
					lens := doc.Buf.LineLens()
					params = J{"textDocument": docID(doc.URI), "position": pos(len(lens)-2, 0)}
				}
			case 9:
				method, params = "workspace/symbol", J{"query": "v"}
			case 10:
				method, params = "textDocument/rename", J{"textDocument": docID(doc.URI), "position": pos(l, ch), "newName": "zz:renamed"}
			}
			r := d.Call(method, params)
			if r == nil {
				if d.Livelock {
					break
				}
				fail("liveness", "no-response", fmt.Sprintf("%s on d%d was not answered", method, doc.No), nil)
				break
			}
			answered++
			notePublishes()
			ctx.T("op%d %s d%d @%d:%d -> %s", op, method, doc.No, l, ch, trunc(canon(r.Result), 160))
			shapes = append(shapes, method)
			checkMarkers(doc, method, r.Result)
			if method == "textDocument/inlineCompletion" && doc.Journal && !failed {
				// positive form of "computed from that text": the header being typed
				// names the stamp payee of the CURRENT version, whose postings are in
				// the current text, so the template must be offered and must be it
				want := fmt.Sprintf("v:d%d:v%d", doc.No, doc.Marker)
				if !strings.Contains(string(r.Result), want) {
					fail("no-older-version", "inline-template-not-from-current-text",
						fmt.Sprintf("inlineCompletion on d%d (at v%d) after the header 'stamp d%d v%d' did not offer the postings of that transaction (%s), which are in the current text; answer: %s", doc.No, doc.Marker, doc.No, doc.Marker, want, trunc(string(r.Result), 200)), nil)
				}
			}
			// formatting edits must fit the model buffer
			if method == "textDocument/formatting" && len(r.Result) > 0 && string(r.Result) != "null" {
				var edits []struct {
					Range struct{ Start, End struct{ Line, Character int } }
				}
				json.Unmarshal(r.Result, &edits)
				for _, e := range edits {
					if e.Range.End.Line >= len(lens) || e.Range.Start.Line > e.Range.End.Line {
						fail("mirror", "formatting-range-outside-buffer", fmt.Sprintf("formatting of d%d returned an edit on lines %d..%d but the client's buffer has %d lines", doc.No, e.Range.Start.Line, e.Range.End.Line, len(lens)), nil)
						break
					}
				}
			}
		}
		if len(d.S.Panics)+len(d.Sess.Panics) > 0 {
			ps := append(d.S.Panics, d.Sess.Panics...)
			fail("liveness", "crash", fmt.Sprintf("panic in %s: %s", ps[0].Task, ps[0].Value), nil)
			break
		}
	}
	d.Quiesce()
	if d.Livelock {
		fail("liveness", "no-quiescence", "step budget exhausted", nil)
	}
	if d.Deadlock != "" {
		fail("liveness", "deadlock", d.Deadlock, nil)
	}
	ctx.NonTrivial = ranged >= 1 && answered >= 1
	ctx.SigExtra = strings.Join(shapes, ",")
	ctx.Stats.Add("ranged-changes", int64(ranged))
	ctx.Stats.Add("requests-answered", int64(answered))
	if d.Sess.SplitHeader > 0 {
		ctx.Stats.Inc("probe:frame-split-in-header")
	}
	if d.Sess.SplitBody > 0 {
		ctx.Stats.Inc("probe:frame-split-in-body")
	}
	if d.MaxLive >= 2 {
		ctx.Stats.Inc("probe:two-background-tasks-alive")
	}
	for _, s := range shapes {
		ctx.Stats.Inc("shape:" + s)
	}
	_ = simrt.StDone
}
