//go:build verifsim

package engine

import (
	"encoding/json"
	"fmt"
	"regexp"
	"sort"
	"strconv"
	"strings"

	"github.com/juev/hledger-lsp/internal/verifsim/simrt"
)

// C09 (tree-membership / file-attribution part) and C20 (which files are
// aggregated, and how often): both observe, at quiescent points, what the
// server answers after a history of opens, unsaved edits, include edits, saves
// and closes, from every open document of the tree.
type treeEngine struct{ prop string }

func init() {
	Register(treeEngine{"c09"})
	Register(treeEngine{"c20"})
	Register(treeEngine{"c16"})
	Register(treeEngine{"c18"})
}

func (e treeEngine) Name() string { return e.prop }
func (e treeEngine) Rule() string {
	common := "full-server simulation: worlds of 3 journal-profile files on disk (main.journal including a.journal and sometimes b.journal, a.journal sometimes including b.journal) plus one unsaved document, with and without workspace root; histories of 4..30 operations (didOpen of root or included files, unsaved structured edits that add, remove and move occurrences and include lines, didSave, didClose, re-open) with the server's background tasks scheduled under 7 policies; then, at quiescent points only, "
	if e.prop == "c16" {
		return common + c16Rule
	}
	if e.prop == "c18" {
		return common + c18Rule
	}
	if e.prop == "c09" {
		return common + "references (with and without declaration) and rename from EVERY open document on positions drawn from the generator's occurrence table. Oracles: (1) ground truth: the location set equals the occurrence table over the governing tree (workspace root journal's tree plus the requesting document with a workspace; the requesting document's tree without), taking the open buffer where a file is open and the disk copy otherwise, each location attributed to the file that contains it; (2) rename returns an edit at exactly those occurrences (declarations included) with the new name. Non-trivial: >= 1 request answered from a document other than the root of its tree, or after an include edit. Distinct: hash of (tree shapes over time, requesting documents, symbol kinds)."
	}
	return common + "hover on the shared account agg:all, on the payee aggpayee and on the tag aggtag from EVERY open document. Document i posts 10^(i-1) W to agg:all exactly once, so the hover balance read as a decimal numeral IS the multiset of files aggregated (digit i = how many times file i was counted). Oracle (conservation): digit 1 exactly at the files of the governing tree (open buffers over disk), 0 elsewhere; 'Postings', 'Transactions' counts equal the number of such files. Non-trivial: >= 2 files in the governing tree or a hover from a document other than the root. Distinct: hash of (tree shapes over time, hovered documents)."
}
func (treeEngine) Enumerated(string) int            { return 0 }
func (treeEngine) Components() ([]string, []string) { return serverComponents() }

type loc struct {
	URI       string
	L, C1, C2 int
}

// String shows file, line and start column: that is what is compared.  The end
// column is exactness of a range inside its line (pure, C08) and not claimed.
func (l loc) String() string {
	return fmt.Sprintf("%s@%d:%d", strings.TrimPrefix(l.URI, "file:///sim/ws/"), l.L, l.C1)
}

func sortLocs(ls []loc) {
	sort.Slice(ls, func(i, j int) bool {
		if ls[i].URI != ls[j].URI {
			return ls[i].URI < ls[j].URI
		}
		if ls[i].L != ls[j].L {
			return ls[i].L < ls[j].L
		}
		return ls[i].C1 < ls[j].C1
	})
}

var balRe = regexp.MustCompile(`- (-?[0-9.,]+) W`)
var countRe = regexp.MustCompile(`\*\*(Postings|Transactions|Usage|Uses|Used):\*\* (\d+)`)

func (e treeEngine) Run(ctx *RunCtx) {
	c := ctx.C
	prop := strings.ToUpper(e.prop)
	workspace := c.Bool("workspace")
	flags := []string{"deep"}
	if e.prop == "c20" {
		flags = append(flags, "agg")
	}
	if e.prop == "c18" {
		flags = append(flags, "assertions")
	}
	w := NewJWorld(c, workspace, flags...)
	policy := c.Choose("policy", numPolicies)
	d := NewDriver(ctx, c, w.Env, policy, "sut", ctx.Log)
	ctx.T("policy=%s workspace=%v", policyNames[policy], workspace)
	fail := func(oracle, class, msg string, wit map[string]any) bool {
		ctx.T("VERDICT %s/%s: %s", oracle, class, msg)
		return ctx.Fail(&Violation{Property: prop, Oracle: oracle, Class: class, Msg: msg, Witness: wit})
	}
	defer d.Teardown()
	// C16 / C18: the settings that matter arrive through the second party (the
	// client answers workspace/configuration) and change during the history
	st := &treeSettings{maxResults: 200, fuzzy: true, undeclAcct: true, undeclCom: true}
	withSettings := e.prop == "c16" || e.prop == "c18"
	var initOpts any
	if withSettings {
		st.draw(c, e.prop)
		initOpts = J{"hledger": st.payload()}
		ctx.T("settings: %s", canonAny(st.payload()))
	}
	if r := d.Call("initialize", InitParams(w.Root, c.Bool("folders"), withSettings, initOpts)); r == nil {
		fail("liveness", "no-initialize-response", "initialize not answered", nil)
		return
	}
	d.Notify("initialized", J{})
	d.Quiesce()
	answerConfig := func() {
		for n := 0; n < 6; n++ {
			ids := d.Sess.PendingServerRequests()
			if len(ids) == 0 {
				return
			}
			for _, id := range ids {
				d.Sess.Respond(id, []any{st.payload()}, nil)
			}
			d.Quiesce()
		}
	}
	answerConfig()
	reconfigure := func() {
		st.draw(c, e.prop)
		d.Notify("workspace/didChangeConfiguration", J{"settings": nil})
		d.Quiesce()
		answerConfig()
		ctx.T("configuration changed (answered at once): %s", canonAny(st.payload()))
	}
	main := w.Docs[0]
	nontrivial := false
	var sig []string
	// governing tree of a request from doc
	governing := func(doc *JDoc) []*JDoc {
		if workspace {
			tree := w.Tree(main)
			in := false
			for _, t := range tree {
				if t == doc {
					in = true
				}
			}
			if !in {
				tree = append(tree, doc)
			}
			return tree
		}
		return w.Tree(doc)
	}
	observe := func(doc *JDoc) bool {
		if !workspace {
			// without a workspace the server learns about other files when it
			// re-analyses the document: a no-op edit makes its tree current
			doc.LSPVer++
			d.Notify("textDocument/didChange", J{"textDocument": J{"uri": doc.URI, "version": doc.LSPVer}, "contentChanges": []J{{"text": doc.Text}}})
		}
		if c.Pct("unjudged-request-while-work-is-pending", 30) {
			// the same kind of request while background work may still be in
			// flight; its answer is not judged, but whatever it caches must not
			// show in the answers observed at quiescence
			l, ch, _ := w.OccAt(c, doc)
			m := map[string]string{"c20": "textDocument/hover", "c16": "textDocument/completion", "c18": "textDocument/completion", "c09": "textDocument/references"}[e.prop]
			d.Call(m, J{"textDocument": docID(doc.URI), "position": pos(l, ch), "context": J{"includeDeclaration": true}})
			ctx.Stats.Inc("probe:unjudged-request-before-quiescence")
		}
		if !d.Quiesce() {
			fail("liveness", "no-quiescence", d.Deadlock, nil)
			return false
		}
		tree := governing(doc)
		var names []string
		for _, t := range tree {
			names = append(names, "d"+strconv.Itoa(t.No))
		}
		sig = append(sig, fmt.Sprintf("d%d:%s", doc.No, strings.Join(names, "")))
		if len(tree) >= 2 || doc != tree[0] {
			nontrivial = true
		}
		if e.prop == "c20" {
			return e.observeHover(ctx, d, w, doc, tree, fail)
		}
		if e.prop == "c16" {
			return e.observeCompletion(ctx, c, d, w, doc, tree, st, reconfigure, fail)
		}
		if e.prop == "c18" {
			return e.observeUndeclared(ctx, c, d, w, doc, tree, st, fail)
		}
		return e.observeRefs(ctx, c, d, w, doc, tree, fail)
	}
	nops := c.Range("nops", 4, 30)
	for op := 0; op < nops && len(ctx.Violations) == 0 && !d.Livelock; op++ {
		doc := w.Docs[c.Choose("doc", len(w.Docs))]
		if !workspace && doc.Open && doc != main && c.Pct("keep-included-saved", 100) {
			// see Rule: without a workspace included files are read from disk, so
			// their edits are saved before anything is observed (handled below)
		}
		kind := c.Weighted("op", []int{6, 2, 2, 8})
		if !doc.Open {
			kind = -1
		}
		switch kind {
		case -1:
			d.Notify("textDocument/didOpen", w.Open(c, doc))
			if !workspace {
				// keep disk and buffer of a possibly included file in step
				d.Notify("textDocument/didSave", w.Save(doc))
			}
			ctx.T("op%d didOpen d%d v%d includes=%v", op, doc.No, doc.Marker, doc.Includes)
		case 0:
			p, how := w.Change(c, doc)
			d.Notify("textDocument/didChange", p)
			if !workspace {
				d.Notify("textDocument/didSave", w.Save(doc))
				how += ", saved"
			}
			ctx.T("op%d didChange d%d -> v%d (%s) includes=%v", op, doc.No, doc.Marker, how, doc.Includes)
		case 1:
			sp := w.Save(doc)
			if workspace && doc.MaxMark > 0 && c.Pct("ext-write-before-didSave", 20) {
				// another program rewrites the file between the editor's write and its
				// didSave: the open buffer still is what counts
				var have []int
				for v := 0; v <= doc.MaxMark; v++ {
					if doc.Versions[v] != "" && v != doc.Marker {
						have = append(have, v)
					}
				}
				if len(have) > 0 {
					w.ExtWrite(doc, have[c.Choose("ext-version", len(have))])
					ctx.T("op%d another program rewrites d%d's file with its v%d", op, doc.No, doc.DiskMark)
				}
			}
			d.Notify("textDocument/didSave", sp)
			ctx.T("op%d didSave d%d (disk now v%d)", op, doc.No, doc.DiskMark)
		case 2:
			d.Notify("textDocument/didClose", J{"textDocument": docID(doc.URI)})
			doc.Open = false
			ctx.T("op%d didClose d%d", op, doc.No)
		case 3:
			if withSettings && c.Pct("reconfigure", 15) {
				reconfigure()
			}
			ctx.T("op%d observe from d%d", op, doc.No)
			if !observe(doc) {
				break
			}
		}
		d.PumpN(c.Choose("steps-between", 12))
		if len(d.S.Panics)+len(d.Sess.Panics) > 0 {
			ps := append(d.S.Panics, d.Sess.Panics...)
			fail("liveness", "crash", fmt.Sprintf("panic in %s: %s", ps[0].Task, ps[0].Value), nil)
			return
		}
	}
	// final sweep: from every open document
	for _, doc := range w.OpenDocs() {
		if len(ctx.Violations) > 0 {
			break
		}
		ctx.T("final observe from d%d", doc.No)
		observe(doc)
	}
	ctx.NonTrivial = nontrivial
	ctx.SigExtra = strings.Join(sig, ",")
	ctx.Stats.State(e.prop, workspace, strings.Join(sig, ","))
}

func (e treeEngine) observeRefs(ctx *RunCtx, c *simrt.Chooser, d *Driver, w *JWorld, doc *JDoc, tree []*JDoc, fail func(string, string, string, map[string]any) bool) bool {
	// a position on an occurrence of the requesting document
	l, ch, occ := w.OccAt(c, doc)
	// requests are made from postings and transaction headers; whether a cursor
	// on a directive resolves to its symbol is the pure (position -> target) part
	if occ == nil || occ.Kind == "tag" || occ.Decl {
		return true
	}
	inclDecl := c.Bool("incl-decl")
	rename := c.Pct("rename", 35)
	if rename {
		inclDecl = true
	}
	var want []loc
	for _, t := range tree {
		lines, _, _ := t.View()
		for li, gl := range lines {
			for _, o := range gl.Occs {
				if o.Kind == occ.Kind && o.Name == occ.Name && (inclDecl || !o.Decl || occ.Kind == "payee") {
					want = append(want, loc{normURI(t.URI), li, o.Start, o.End})
				}
			}
		}
	}
	sortLocs(want)
	var got []loc
	method := "textDocument/references"
	if rename {
		method = "textDocument/rename"
		r := d.Call(method, J{"textDocument": docID(doc.URI), "position": pos(l, ch), "newName": "zz:renamed"})
		if r == nil {
			fail("liveness", "no-response", "rename not answered", nil)
			return false
		}
		var we struct {
			Changes map[string][]struct {
				Range   struct{ Start, End struct{ Line, Character int } } `json:"range"`
				NewText string                                             `json:"newText"`
			} `json:"changes"`
		}
		json.Unmarshal(r.Result, &we)
		for _, u := range keysOf(we.Changes) {
			for _, ed := range we.Changes[u] {
				if ed.NewText != "zz:renamed" {
					fail("rename", "wrong-new-text", fmt.Sprintf("rename edit carries %q", ed.NewText), nil)
					return false
				}
				got = append(got, loc{normURI(u), ed.Range.Start.Line, ed.Range.Start.Character, ed.Range.End.Character})
			}
		}
	} else {
		r := d.Call(method, J{"textDocument": docID(doc.URI), "position": pos(l, ch), "context": J{"includeDeclaration": inclDecl}})
		if r == nil {
			fail("liveness", "no-response", "references not answered", nil)
			return false
		}
		var ls []struct {
			URI   string                                             `json:"uri"`
			Range struct{ Start, End struct{ Line, Character int } } `json:"range"`
		}
		json.Unmarshal(r.Result, &ls)
		for _, x := range ls {
			got = append(got, loc{normURI(x.URI), x.Range.Start.Line, x.Range.Start.Character, x.Range.End.Character})
		}
	}
	sortLocs(got)
	ctx.T("  %s %s %q from d%d @%d:%d (declarations %v): %d locations", method, occ.Kind, occ.Name, doc.No, l, ch, inclDecl, len(got))
	if fmt.Sprint(got) != fmt.Sprint(want) {
		// classify: wrong files vs wrong ranges
		gf, wf := map[string]int{}, map[string]int{}
		for _, x := range got {
			gf[x.URI]++
		}
		for _, x := range want {
			wf[x.URI]++
		}
		cls := "locations-differ"
		if fmt.Sprint(keysOf(gf)) != fmt.Sprint(keysOf(wf)) {
			cls = "file-set-differs"
		} else {
			same := true
			for _, u := range keysOf(gf) {
				if gf[u] != wf[u] {
					same = false
				}
			}
			if !same {
				cls = "occurrence-count-differs"
			} else {
				cls = "range-differs"
			}
		}
		var tn []string
		for _, t := range tree {
			tn = append(tn, fmt.Sprintf("d%d(%s)", t.No, map[bool]string{true: "open", false: "disk"}[t.Open]))
		}
		fail("ground-truth", cls+":"+strings.TrimPrefix(method, "textDocument/"), fmt.Sprintf("%s on %s %q from d%d: server returned %v, the occurrence table over the governing tree %v gives %v", method, occ.Kind, occ.Name, doc.No, got, tn, want),
			map[string]any{"workspace": w.Root != "", "fromRoot": doc == tree[0]})
		return false
	}
	return true
}

func (e treeEngine) observeHover(ctx *RunCtx, d *Driver, w *JWorld, doc *JDoc, tree []*JDoc, fail func(string, string, string, map[string]any) bool) bool {
	// expected numeral: digit i-1 set for every document i of the tree
	want := 0
	for _, t := range tree {
		wt := 1
		for i := 1; i < t.No; i++ {
			wt *= 10
		}
		want += wt
	}
	var aggLine int = -1
	for i, gl := range doc.Lines {
		if strings.HasPrefix(gl.Text, "    agg:all") {
			aggLine = i
		}
	}
	if aggLine < 0 {
		return true
	}
	var tn []string
	for _, t := range tree {
		tn = append(tn, fmt.Sprintf("d%d(%s)", t.No, map[bool]string{true: "open", false: "disk"}[t.Open]))
	}
	check := func(what string, l, ch int, wantCount int, checkBalance bool) bool {
		r := d.Call("textDocument/hover", J{"textDocument": docID(doc.URI), "position": pos(l, ch)})
		if r == nil {
			fail("liveness", "no-response", "hover not answered", nil)
			return false
		}
		var h struct {
			Contents struct {
				Value string `json:"value"`
			} `json:"contents"`
		}
		json.Unmarshal(r.Result, &h)
		v := h.Contents.Value
		ctx.T("  hover %s from d%d -> %q", what, doc.No, v)
		if v == "" {
			fail("conservation", "no-hover:"+what, fmt.Sprintf("hover on %s from d%d returned nothing", what, doc.No), nil)
			return false
		}
		if checkBalance {
			m := balRe.FindStringSubmatch(v)
			got := -1
			if m != nil {
				got, _ = strconv.Atoi(strings.ReplaceAll(strings.ReplaceAll(m[1], ",", ""), ".", ""))
			}
			if got != want {
				fail("conservation", "aggregated-files:"+what, fmt.Sprintf("hover on agg:all from d%d shows balance %d W; document i posts 10^(i-1) W once, and the governing tree is %v, so the balance must read %d (a digit 2 = a file counted twice, a missing 1 = a file left out)", doc.No, got, tn, want),
					map[string]any{"workspace": w.Root != "", "got": got, "want": want, "fromRoot": doc == tree[0]})
				return false
			}
		}
		if m := countRe.FindStringSubmatch(v); m != nil {
			n, _ := strconv.Atoi(m[2])
			if n != wantCount {
				fail("conservation", "count:"+what, fmt.Sprintf("hover on %s from d%d shows %s %d; the governing tree %v has %d", what, doc.No, m[1], n, tn, wantCount),
					map[string]any{"workspace": w.Root != "", "fromRoot": doc == tree[0]})
				return false
			}
		}
		return true
	}
	if !check("account agg:all", aggLine, 6, len(tree), true) {
		return false
	}
	if !check("payee aggpayee", aggLine-1, 13, len(tree), false) {
		return false
	}
	return check("tag aggtag", aggLine-1, 25, len(tree), false)
}
