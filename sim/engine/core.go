// Package engine holds the simulation engines (one per property or group of
// properties), their workload generators and their oracles.
package engine

import (
	"encoding/json"
	"fmt"
	"hash/fnv"
	"os"
	"sort"
	"strings"

	"github.com/juev/hledger-lsp/internal/verifsim/simrt"
)

// Violation is one property violation found in one run.
type Violation struct {
	Property string         `json:"property"`
	Oracle   string         `json:"oracle"`
	Class    string         `json:"class"`
	Msg      string         `json:"msg"`
	Witness  map[string]any `json:"witness,omitempty"`
}

func (v *Violation) Key() string { return v.Property + "/" + v.Oracle + "/" + v.Class }

// KnownFinding is an entry of /verif/known_findings.json.
type KnownFinding struct {
	ID       string `json:"id"`
	Status   string `json:"status"` // "open" or "fixed"
	Property string `json:"property"`
	Oracle   string `json:"oracle,omitempty"`
	Class    string `json:"class,omitempty"`
	Explain  string `json:"explain,omitempty"` // predicate id, see explain.go
	Commit   string `json:"commit,omitempty"`
	What     string `json:"what"`
}

// RunCtx is everything one simulated run may use.  All decisions go through C.
type RunCtx struct {
	C     *simrt.Chooser
	Log   *simrt.Log
	Tier  string
	Race  bool // race-detector binary: no oracle may read server memory, no reference servers
	Stats *Stats
	Known []KnownFinding

	KeepTrace bool
	Trace     []string
	// NonTrivial is set by the engine when the run satisfies the engine's
	// non-triviality rule; Sig is then counted as a distinct case.
	NonTrivial bool
	SigExtra   string
	Violations []*Violation
	// Param selects an enumerated sub-case (e.g. fault index, permutation
	// number); -1 = seeded search.
	Param int
}

// T appends a human-readable trace line (kept only when KeepTrace).
func (c *RunCtx) T(format string, a ...any) {
	l := fmt.Sprintf(format, a...)
	c.Log.Note("t", l)
	if c.KeepTrace {
		c.Trace = append(c.Trace, l)
	}
}

// Fail records a violation unless an open known finding explains it, in which
// case the hit is counted and true is returned so that the engine can adopt
// the observed state and continue.
func (c *RunCtx) Fail(v *Violation) (known bool) {
	for _, k := range c.Known {
		if k.Status != "open" || k.Property != v.Property {
			continue
		}
		if explains(k, v) {
			c.Stats.Inc("known:" + k.ID)
			c.Log.Note("known", k.ID)
			return true
		}
	}
	c.Violations = append(c.Violations, v)
	c.Log.Note("violation", v.Key())
	return false
}

// Stats are counters and sets measured by the run(s).
type Stats struct {
	Counters  map[string]int64    `json:"counters"`
	Sigs      map[uint64]struct{} `json:"-"`
	States    map[uint64]struct{} `json:"-"`
	SigList   []uint64            `json:"sigs,omitempty"`
	StateList []uint64            `json:"states,omitempty"`
	Samples   []Sample            `json:"samples,omitempty"`
}

type Sample struct {
	Kind  string   `json:"kind"`
	Run   uint64   `json:"run"`
	Steps int      `json:"steps"`
	Trace []string `json:"trace"`
}

func NewStats() *Stats {
	return &Stats{Counters: map[string]int64{}, Sigs: map[uint64]struct{}{}, States: map[uint64]struct{}{}}
}

func (s *Stats) Inc(k string)          { s.Counters[k]++ }
func (s *Stats) Add(k string, n int64) { s.Counters[k] += n }
func (s *Stats) Max(k string, n int64) {
	if n > s.Counters[k] {
		s.Counters[k] = n
	}
}
func (s *Stats) State(parts ...any) {
	h := fnv.New64a()
	fmt.Fprint(h, parts...)
	s.States[h.Sum64()] = struct{}{}
}

func (s *Stats) Merge(o *Stats) {
	for k, v := range o.Counters {
		if strings.HasPrefix(k, "max:") {
			s.Max(k, v)
		} else {
			s.Counters[k] += v
		}
	}
	for k := range o.Sigs {
		s.Sigs[k] = struct{}{}
	}
	for _, k := range o.SigList {
		s.Sigs[k] = struct{}{}
	}
	for k := range o.States {
		s.States[k] = struct{}{}
	}
	for _, k := range o.StateList {
		s.States[k] = struct{}{}
	}
	s.Samples = append(s.Samples, o.Samples...)
}

func (s *Stats) Flatten() {
	s.SigList = s.SigList[:0]
	for k := range s.Sigs {
		s.SigList = append(s.SigList, k)
	}
	sort.Slice(s.SigList, func(i, j int) bool { return s.SigList[i] < s.SigList[j] })
	s.StateList = s.StateList[:0]
	for k := range s.States {
		s.StateList = append(s.StateList, k)
	}
	sort.Slice(s.StateList, func(i, j int) bool { return s.StateList[i] < s.StateList[j] })
}

// Engine is one simulation engine.
type Engine interface {
	Name() string
	// Rule describes how cases are generated and what makes one non-trivial.
	Rule() string
	// Enumerated returns the number of enumerated sub-cases to run before the
	// seeded search (0 = none).  Each is run with ctx.Param = 0..n-1.
	Enumerated(tier string) int
	Run(ctx *RunCtx)
	// Real / Stub components, for the evidence file.
	Components() (real, stub []string)
}

var registry = map[string]Engine{}

func Register(e Engine)      { registry[e.Name()] = e }
func Get(name string) Engine { return registry[name] }
func Names() []string {
	var out []string
	for k := range registry {
		out = append(out, k)
	}
	sort.Strings(out)
	return out
}

func LoadKnown(path string) []KnownFinding {
	if path == "" {
		return nil
	}
	b, err := os.ReadFile(path)
	if err != nil {
		return nil
	}
	var f struct {
		Findings []KnownFinding `json:"findings"`
	}
	if err := json.Unmarshal(b, &f); err != nil {
		fmt.Fprintf(os.Stderr, "known findings file %s does not parse: %v\n", path, err)
		os.Exit(2)
	}
	return f.Findings
}

func hash64(s string) uint64 {
	h := fnv.New64a()
	h.Write([]byte(s))
	return h.Sum64()
}

// pick returns one element of xs.
func pick[T any](c *simrt.Chooser, label string, xs []T) T {
	return xs[c.Choose(label, len(xs))]
}

// runTasks steps the tasks of a component-level scheduler until none is
// runnable, under a schedule policy drawn per call: uniform random picks,
// sticky (keep running the same task with high probability, which is what
// lets one task finish inside a window of another), or priorities with a few
// change points (PCT).
func runTasks(c *simrt.Chooser, sched *simrt.Sched, budget int) {
	policy := c.Choose("component-policy", 3)
	var last *simrt.Task
	prio := map[int]int{}
	changes := 2
	for n := 0; n < budget; n++ {
		run := sched.RunnableTasks()
		if len(run) == 0 {
			return
		}
		var t *simrt.Task
		switch policy {
		case 0:
			t = run[c.Choose("task", len(run))]
		case 1:
			for _, r := range run {
				if r == last && c.Choose("stay", 10) < 9 {
					t = r
				}
			}
			if t == nil {
				t = run[c.Choose("task", len(run))]
			}
		case 2:
			for _, r := range run {
				if _, ok := prio[r.ID]; !ok {
					prio[r.ID] = 1 + c.Choose("prio", 100)
				}
				if t == nil || prio[r.ID] > prio[t.ID] {
					t = r
				}
			}
			if changes > 0 && c.Choose("prio-change", 8) == 0 {
				changes--
				prio[t.ID] = -changes
			}
		}
		last = t
		sched.Step(t)
	}
}
