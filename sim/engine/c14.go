//go:build verifsim

package engine

import (
	"fmt"
	"regexp"
	"sort"
	"strconv"
	"strings"
	"time"

	"github.com/juev/hledger-lsp/internal/verifsim/simfs"
	"github.com/juev/hledger-lsp/internal/verifsim/simrt"
)

// C14: background work never races with, blocks or corrupts later requests.
type c14 struct{}

func init() { Register(c14{}) }

func (c14) Name() string { return "c14" }
func (c14) Rule() string {
	return "full-server simulation over the wire: 8..45 client operations (didOpen/didChange/didSave/didClose/re-open, completion, hover, definition, references, rename, prepareRename, documentSymbol, workspace/symbol, formatting, foldingRange, documentLink, semanticTokens full/range/delta, inlineCompletion, Server.CodeAction through a debug method, didChangeConfiguration with the client answering workspace/configuration immediately, late or never, unknown notifications, requests on closed documents) on 1..4 journal-profile documents carrying version markers, with and without workspace root, hledger found or not (exec-ok), optional transport close, clock jumps (over midnight, by months, backwards), the file of an open document becoming unreadable for good (sticky EIO); in a quarter of the runs (disk-fault class) journal files are hit by one-shot disk faults (enoent, eio, torn read, stat-small) while only the invariants and the marker oracle are judged, then the faults stop, the server is told about the files they hit (didSave / didOpen+didSave+didClose), every open document is touched, and from then on every compared answer must again equal the fresh reference; every go statement of the server is a task the simulator schedules under 7 policies with preemption at every lock, sync.Map, disk, clock, exec and client call. Invariants: no panic in any task, no deadlock, no livelock within 20000 steps, and in the -race build (same seeds, happens-before-invisible scheduling) no data-race report. Oracle: no marker of a superseded version of the requesting document in any response; sampled responses must equal, after canonical JSON, the response of a FRESH sequential reference server brought to the same client-visible state (same disk clone, same settings, didOpen of every open document in open order); while background work of the requesting document is still pending the answer may instead equal the cold reference (no analysis has run) or the lagging reference (analysis of the last published version has run, the latest change not yet). Non-trivial: >= 2 server tasks alive at once or a request answered while a task was pending. Distinct: schedule signature + operation kinds."
}
func (c14) Enumerated(string) int            { return 0 }
func (c14) Components() ([]string, []string) { return serverComponents() }

func (c14) Run(ctx *RunCtx) {
	c := ctx.C
	workspace := c.Bool("workspace")
	w := NewJWorld(c, workspace, "formats")
	policy := c.Choose("policy", numPolicies)
	if c.Pct("exec-ok", 25) {
		w.Env.Exec.VersionOK = true
		ctx.Stats.Inc("fault:exec-ok")
	}
	d := NewDriver(ctx, c, w.Env, policy, "sut", ctx.Log)
	if c.Pct("chunking", 30) {
		d.Sess.Chunk = func(max int) int { return 1 + c.Choose("chunk", max) }
	}
	// disk-fault class (a quarter of the runs, never mixed with the fault-free
	// class): while the faults last only the invariants and the marker oracle
	// are judged; once they stop and the server was told about the files they
	// hit, every later answer must again equal the fresh reference
	faultClass := c.Pct("disk-fault-class", 25)
	faulty := false
	faultHit := map[string]bool{}
	cfgCap := c.Pct("cfg-capability", 70)
	// one well-typed settings payload per run; replies to later configuration
	// requests repeat it with a different cli path/timeout (which no response
	// depends on), so that the effective settings are unambiguous while
	// setSettings / SetLimits / reinitCLI still run concurrently with analyses.
	p0 := J{
		"completion": J{"maxResults": []int{50, 5, 200}[c.Choose("maxResults", 3)], "showCounts": c.Bool("showCounts")},
		"formatting": J{"indentSize": []int{4, 2}[c.Choose("indent", 2)]},
		"limits":     J{"maxIncludeDepth": []int{50, 3}[c.Choose("depth", 2)]},
	}
	cfgReply := func(n int) any {
		cp := J{}
		for k, v := range p0 {
			cp[k] = v
		}
		cp["cli"] = J{"path": fmt.Sprintf("hledger%d", n), "timeout": 1000 + n}
		// the include limits change with every answer too, between values that never
		// bind in these worlds (the trees are at most three files deep): no
		// response depends on them, but every change runs the code that reacts to
		// new limits while documents have unsaved buffers
		base := p0["limits"].(J)["maxIncludeDepth"].(int)
		cp["limits"] = J{"maxIncludeDepth": base + (n%3)*7, "maxFileSizeBytes": 10485760 - n%2}
		return cp
	}
	init := InitParams(w.Root, c.Bool("folders"), cfgCap, J{"hledger": p0})
	ctx.T("policy=%s workspace=%v cfgCapability=%v execOK=%v settings=%s", policyNames[policy], workspace, cfgCap, w.Env.Exec.VersionOK, canonAny(p0))
	failed := false
	fail := func(oracle, class, msg string, wit map[string]any) {
		ctx.T("VERDICT %s/%s: %s", oracle, class, msg)
		if !ctx.Fail(&Violation{Property: "C14", Oracle: oracle, Class: class, Msg: msg, Witness: wit}) {
			failed = true
		}
	}
	defer d.Teardown()
	if r := d.Call("initialize", init); r == nil {
		fail("liveness", "no-initialize-response", "initialize was not answered", nil)
		return
	}
	d.Notify("initialized", J{})
	d.PumpN(c.Choose("steps", 20))

	cfgN := 0
	lastPublished := map[string]int{}
	answeredWhilePending := 0
	compared, comparedCold, comparedLag := 0, 0, 0
	closed := false
	var kinds []string
	seenOut := 0
	scanOut := func() {
		for ; seenOut < len(d.Sess.Out); seenOut++ {
			m := &d.Sess.Out[seenOut]
			if m.Method == "textDocument/publishDiagnostics" {
				u, marks := publishMarkers(m.Params)
				if len(marks) > 0 {
					lastPublished[u] = marks[len(marks)-1] - 1
				}
			}
		}
	}
	answerConfig := func(force bool) {
		for _, id := range d.Sess.PendingServerRequests() {
			how := c.Weighted("cfg-answer", []int{6, 2, 1, 1})
			if force {
				how = 0
			}
			switch how {
			case 0:
				cfgN++
				d.Sess.Respond(id, []any{cfgReply(cfgN)}, nil)
				ctx.T("client answers workspace/configuration #%s (cli path hledger%d)", id, cfgN)
			case 1:
				// late: leave pending for now
				ctx.Stats.Inc("fault:cfg-late")
			case 2:
				d.Sess.Respond(id, nil, J{"code": -32603, "message": "client failed"})
				ctx.T("client answers workspace/configuration #%s with an error", id)
				ctx.Stats.Inc("fault:cfg-error")
			case 3:
				d.Sess.Respond(id, []any{}, nil)
				ctx.T("client answers workspace/configuration #%s with []", id)
				ctx.Stats.Inc("fault:cfg-empty")
			}
		}
	}
	spec := func(cold bool, lagDoc *JDoc, lagVer int) RefSpec {
		s := RefSpec{Env: w.Env.Clone(), Init: init, Config: cfgReply(0), Cold: cold, Initialized: true}
		for _, od := range w.OpenDocs() {
			rd := RefDoc{URI: od.URI, Text: od.Text}
			if od == lagDoc {
				rd.PrevText = od.Versions[lagVer]
			}
			s.Docs = append(s.Docs, rd)
		}
		return s
	}
	// request sends one feature request and judges the answer; echo=true marks a
	// request that repeats the previous one after a state change (always compared)
	var request func(op int, doc *JDoc, method string, params J, l, ch int, occ *Occ, echo bool)
	lastPending := 0
	request = func(op int, doc *JDoc, method string, params J, l, ch int, occ *Occ, echo bool) {
		pendingBefore := d.LiveBg()
		if _, timer := d.Env.Clock.NextTimer(); timer {
			// a timer the server set (a debounced analysis, say) is work in flight
			pendingBefore++
		}
		if d.Sess.InboundPending() || len(d.S.RunnableTasks()) > 0 {
			// notifications the dispatcher has not even read yet will spawn tasks
			pendingBefore++
		}
		pendingCfg := len(d.Sess.PendingServerRequests())
		lastPending = pendingBefore
		// what had been published when the request was sent (a publish may arrive
		// while the request is being served)
		pubBefore := map[string]int{}
		for u, v := range lastPublished {
			pubBefore[u] = v
		}
		r := d.Call(method, params)
		if r == nil {
			if !d.Livelock && d.Deadlock == "" {
				d.Quiesce()
				if d.Deadlock != "" {
					return
				}
				fail("liveness", "no-response", fmt.Sprintf("%s on d%d was not answered", method, doc.No), nil)
			}
			return
		}
		scanOut()
		got := CanonResponse(r.Result, r.Error)
		what := ""
		if occ != nil {
			what = occ.Kind + " " + occ.Name
		}
		ctx.T("op%d %s d%d @%d:%d (%s) pending-tasks=%d -> %s", op, method, doc.No, l, ch, what, pendingBefore, trunc(got, 140))
		kinds = append(kinds, strings.TrimPrefix(method, "textDocument/"))
		if pendingBefore > 0 {
			answeredWhilePending++
		}
		// marker oracle: nothing of an older version of the requesting document
		for _, m := range markerRe.FindAllStringSubmatch(got, -1) {
			dn, _ := strconv.Atoi(m[1])
			vn, _ := strconv.Atoi(m[2])
			if dn == doc.No && vn != doc.Marker {
				fail("no-older-version", "stale-"+strings.TrimPrefix(method, "textDocument/"),
					fmt.Sprintf("%s on d%d (at v%d) answered with content of its superseded version %d", method, doc.No, doc.Marker, vn), nil)
				return
			}
		}
		// clock oracle (not differential: a reference server in the same process
		// would share a process-global remembered instant): the item marked
		// "today" of a date completion names the day of the simulated clock now
		if method == "textDocument/completion" {
			if m := todayRe.FindStringSubmatch(got); m != nil {
				want := time.Unix(0, w.Env.Clock.Nanos).UTC().Format("2006-01-02")
				if m[1] != want {
					fail("clock", "today-is-not-today", fmt.Sprintf("completion on d%d offers %s as \"today\" while the clock says %s", doc.No, m[1], want), nil)
					return
				}
			}
		}
		// the choice is drawn in both builds so that one seed is one schedule in
		// the plain and in the -race binary
		doCompare := c.Pct("compare", 45)
		if failed || ctx.Race || faulty || !(doCompare || echo) {
			return
		}
		// ---- differential oracle
		quiescent := pendingBefore == 0 && pendingCfg == 0
		ref := StartRef(ctx, spec(false, nil, 0))
		want := ref.Ask(method, params)
		ref.Close()
		compared++
		verdict := got == want
		tried := []string{"fresh"}
		if !verdict && !quiescent {
			cr := StartRef(ctx, spec(true, nil, 0))
			wc := cr.Ask(method, params)
			cr.Close()
			comparedCold++
			tried = append(tried, "cold")
			if got == wc {
				verdict = true
				ctx.Stats.Inc("probe:answer-equals-cold-reference")
			}
			if !verdict {
				// lagging: the include tree of an open document may still be the one of
				// an earlier version - the last one published, or a later one whose
				// analysis has stored its tree without its publish having arrived yet
				// (never one older than the last published)
			lagLoop:
				for _, od := range w.OpenDocs() {
					from := 0
					if lp, ok := pubBefore[od.URI]; ok {
						// an undo repeats a marker in the history, and a publish carrying
						// it may stem from the earlier occurrence: every version since
						// the FIRST of the recent occurrences may be the lagging one
						for i := len(od.History) - 1; i >= 0 && i >= len(od.History)-5; i-- {
							if od.History[i] == lp {
								from = i
							}
						}
					}
					for i := len(od.History) - 2; i >= from && i >= len(od.History)-5; i-- {
						lv := od.History[i]
						if lv == od.Marker || od.Versions[lv] == "" {
							continue
						}
						lr := StartRef(ctx, spec(false, od, lv))
						wl := lr.Ask(method, params)
						lr.Close()
						comparedLag++
						tried = append(tried, fmt.Sprintf("lagging(d%d@v%d)", od.No, lv))
						if got == wl {
							verdict = true
							ctx.Stats.Inc("probe:answer-equals-lagging-reference")
							break lagLoop
						}
					}
				}
			}
		}
		d.Resume()
		if !verdict {
			cls := "differs-" + strings.TrimPrefix(method, "textDocument/")
			if quiescent {
				cls = "quiescent-" + cls
			}
			fail("fresh-reference", cls, fmt.Sprintf("%s on d%d: response differs from every reference (%s). server: %s  fresh reference: %s", method, doc.No, strings.Join(tried, ", "), trunc(diffHint(got, want), 500), trunc(diffHint(want, got), 500)),
				map[string]any{"method": method, "quiescent": quiescent, "workspace": workspace, "got": got, "want": want})
		}
	}
	type echoReq struct {
		doc    *JDoc
		method string
		params J
		l, ch  int
		occ    *Occ
	}
	var lastReq *echoReq
	nops := c.Range("nops", 8, 45)
	healAt := -1
	if faultClass {
		// the workspace is initialised and the first configuration round is over
		// before the first fault: a server that cannot read its root journal at
		// start-up is another question than the one asked here
		answerConfig(true)
		d.Quiesce()
		faulty = true
		healAt = nops/3 + c.Choose("heal-at", nops/3+1)
		kindsOfFault := []simfs.FaultKind{simfs.FEnoent, simfs.FEio, simfs.FTorn, simfs.FStatSmall}
		w.Env.Disk.Fault = func(fop, p string, idx int) simfs.Fault {
			if !faulty || !strings.HasSuffix(p, ".journal") || c.Choose("disk-fault", 10) != 0 {
				return simfs.Fault{}
			}
			k := kindsOfFault[c.Choose("disk-fault-kind", len(kindsOfFault))]
			switch {
			case (k == simfs.FEio || k == simfs.FTorn) && fop != "read", k == simfs.FStatSmall && fop != "stat", k == simfs.FEnoent && fop != "stat" && fop != "read":
				return simfs.Fault{}
			}
			faultHit[p] = true
			ctx.Stats.Inc("fault:" + map[simfs.FaultKind]string{simfs.FEnoent: "enoent-oneshot", simfs.FEio: "eio-oneshot", simfs.FTorn: "torn", simfs.FStatSmall: "toctou-grow"}[k])
			return simfs.Fault{Kind: k, Arg: c.Choose("torn-keep", 60)}
		}
		ctx.T("disk-fault class: one-shot faults (enoent, eio, torn read, stat-small) on journal files until op %d", healAt)
	}
	heal := func(op int) {
		faulty = false
		w.Env.Disk.Fault = nil
		// the writers finished: the server is told about every file a fault hit
		// (open documents are saved; closed ones are opened as they are on disk,
		// saved and closed), then every open document is touched once
		var hit []string
		for p := range faultHit {
			hit = append(hit, p)
		}
		sort.Strings(hit)
		for _, p := range hit {
			for _, hd := range w.Docs {
				if hd.Path != p {
					continue
				}
				switch {
				case hd.Open && workspace:
					d.Notify("textDocument/didSave", w.Save(hd))
				case hd.Open:
					// no workspace: the disk stays frozen (nothing is written), the
					// notification alone tells the server that its copy of the file is stale
					d.Notify("textDocument/didSave", J{"textDocument": docID(hd.URI)})
				case hd.DiskMark >= 0:
					d.Notify("textDocument/didOpen", w.OpenWithDisk(hd))
					d.Notify("textDocument/didSave", J{"textDocument": docID(hd.URI)})
					d.Notify("textDocument/didClose", J{"textDocument": docID(hd.URI)})
					hd.Open = false
				}
			}
		}
		for _, od := range w.OpenDocs() {
			od.LSPVer++
			d.Notify("textDocument/didChange", J{"textDocument": J{"uri": od.URI, "version": od.LSPVer}, "contentChanges": []J{{"text": od.Text}}})
		}
		answerConfig(true)
		d.Quiesce()
		scanOut()
		ctx.T("op%d faults stop; the server was told about %v and every open document was touched", op, hit)
		ctx.Stats.Inc("probe:faults-healed-then-compared")
	}
	for op := 0; op < nops && !failed && !closed && !d.Livelock; op++ {
		if faulty && op >= healAt {
			heal(op)
		}
		doc := w.Docs[c.Choose("doc", len(w.Docs))]
		kind := c.Weighted("op", []int{9, 2, 2, 14, 2, 1, 2})
		settlePct := 30
		if !doc.Open && kind != 4 && kind != 5 && kind != 6 {
			if c.Pct("request-on-closed", 10) {
				r := d.Call("textDocument/hover", J{"textDocument": docID(doc.URI), "position": pos(0, 0)})
				ctx.T("op%d hover on closed d%d -> %v", op, doc.No, r != nil)
				kinds = append(kinds, "closed-req")
				if r == nil && !d.Livelock {
					fail("liveness", "no-response", "hover on a closed document was not answered", nil)
				}
				continue
			}
			kind = -1
		}
		switch kind {
		case -1:
			d.Notify("textDocument/didOpen", w.Open(c, doc))
			ctx.T("op%d didOpen d%d v%d includes=%v", op, doc.No, doc.Marker, doc.Includes)
			kinds = append(kinds, "open")
		case 0:
			prevIncs := strings.Join(doc.Includes, "|")
			p, how := w.Change(c, doc)
			d.Notify("textDocument/didChange", p)
			ctx.T("op%d didChange d%d -> v%d (%s) includes=%v", op, doc.No, doc.Marker, how, doc.Includes)
			kinds = append(kinds, "change")
			if gl := doc.GhostLines(); prevIncs != strings.Join(doc.Includes, "|") && len(gl) > 0 && c.Pct("ghost-text-right-after-tree-change", 40) {
				// the edit changed the include lines: ghost text over the include tree
				// is asked for while the analysis that computes the new tree is on its
				// way, and (mostly) once more when it has finished
				d.PumpN(c.Choose("steps-before-ghost-text", 6))
				g := gl[c.Choose("ghost", len(gl))]
				gp := J{"textDocument": docID(doc.URI), "position": pos(g, 0)}
				ctx.Stats.Inc("probe:ghost-text-asked-right-after-the-include-lines-changed")
				request(op, doc, "textDocument/inlineCompletion", gp, g, 0, nil, false)
				lastReq = &echoReq{doc, "textDocument/inlineCompletion", gp, g, 0, nil}
				kind, settlePct = 3, 80
			}
		case 1:
			if !workspace {
				// Without a workspace the server learns about other files only when
				// it re-analyses a document; the disk stays frozen in these runs so
				// that "the including document was not re-analysed since the save"
				// cannot masquerade as corruption by background work (DESIGN 5.11/11).
				continue
			}
			sp := w.Save(doc)
			if doc.MaxMark > 0 && c.Pct("ext-write-before-didSave", 25) {
				// another program rewrites the file between the editor's write and
				// its didSave: the open buffer still is what every answer is about
				var have []int
				for v := 0; v <= doc.MaxMark; v++ {
					if doc.Versions[v] != "" && v != doc.Marker {
						have = append(have, v)
					}
				}
				if len(have) == 0 {
					have = []int{doc.Marker}
				}
				w.ExtWrite(doc, have[c.Choose("ext-version", len(have))])
				ctx.Stats.Inc("fault:ext-write")
				ctx.T("op%d another program rewrites d%d's file with its v%d", op, doc.No, doc.DiskMark)
			}
			d.Notify("textDocument/didSave", sp)
			ctx.T("op%d didSave d%d (disk now v%d)", op, doc.No, doc.DiskMark)
			kinds = append(kinds, "save")
		case 2:
			d.Notify("textDocument/didClose", J{"textDocument": docID(doc.URI)})
			doc.Open = false
			ctx.T("op%d didClose d%d", op, doc.No)
			kinds = append(kinds, "close")
		case 4:
			d.Notify("workspace/didChangeConfiguration", J{"settings": nil})
			ctx.T("op%d didChangeConfiguration", op)
			kinds = append(kinds, "config")
		case 5:
			m := []string{"$/setTrace", "$/cancelRequest", "verif/unknownNotification"}[c.Choose("unknown", 3)]
			d.Notify(m, J{"value": "off", "id": 1})
			ctx.T("op%d notification %s", op, m)
			kinds = append(kinds, "unknown")
		case 6:
			if c.Pct("close-transport", 15) {
				d.Sess.Close()
				closed = true
				ctx.T("op%d transport closed by the client with %d background tasks alive", op, d.LiveBg())
				ctx.Stats.Inc("fault:eof")
				kinds = append(kinds, "eof")
			} else if workspace && doc.No != 1 && doc.Open && doc.DiskMark >= 0 && !w.Env.Disk.BadRead[doc.Path] && c.Pct("becomes-unreadable", 35) {
				// the file of an OPEN document (not the root journal: a server that cannot
				// read its root at start-up is another question) becomes unreadable (sticky EIO:
				// stat succeeds, read fails): while it is open its buffer counts; once
				// it is closed nothing of the buffer may stay, exactly as on a fresh
				// server that cannot read the file either
				w.Env.Disk.BadRead[doc.Path] = true
				ctx.T("op%d the file of d%d becomes unreadable (sticky EIO)", op, doc.No)
				ctx.Stats.Inc("fault:eio-sticky")
				kinds = append(kinds, "unreadable")
			} else if c.Pct("clock-jump", 40) {
				// the wall clock jumps: forwards over midnight, by months, or backwards
				// (NTP step); what an answer says about "today" follows the clock of the
				// moment of the request, never an instant remembered from an earlier one
				h := []int64{13, 1, 24 * 200, -24, -24 * 40}[c.Choose("clock-jump-hours", 5)]
				w.Env.Clock.Nanos += h * 3600 * 1000000000
				ctx.T("op%d the clock jumps by %d hours", op, h)
				ctx.Stats.Inc("fault:clock-jump")
				kinds = append(kinds, "clock")
			}
		case 3:
			l, ch, occ := w.OccAt(c, doc)
			td := J{"textDocument": docID(doc.URI), "position": pos(l, ch)}
			var method string
			var params J
			switch c.Choose("feature", 18) {
			case 0, 1:
				method, params = "textDocument/completion", td
			case 2:
				method, params = "textDocument/hover", td
			case 3:
				method, params = "textDocument/definition", td
			case 4:
				method, params = "textDocument/references", J{"textDocument": docID(doc.URI), "position": pos(l, ch), "context": J{"includeDeclaration": c.Bool("incl-decl")}}
			case 5:
				method, params = "textDocument/rename", J{"textDocument": docID(doc.URI), "position": pos(l, ch), "newName": "zz:renamed"}
			case 6:
				method, params = "textDocument/prepareRename", td
			case 7:
				method, params = "textDocument/documentSymbol", J{"textDocument": docID(doc.URI)}
			case 8:
				method, params = "workspace/symbol", J{"query": []string{"", "v", "exp", "stamp"}[c.Choose("query", 4)]}
			case 9:
				method, params = "textDocument/formatting", J{"textDocument": docID(doc.URI), "options": J{"tabSize": 4, "insertSpaces": true}}
			case 10:
				method, params = "textDocument/foldingRange", J{"textDocument": docID(doc.URI)}
			case 11:
				method, params = "textDocument/documentLink", J{"textDocument": docID(doc.URI)}
			case 12:
				method, params = "textDocument/semanticTokens/full", J{"textDocument": docID(doc.URI)}
			case 13:
				method, params = "textDocument/semanticTokens/range", J{"textDocument": docID(doc.URI), "range": rng(0, 0, 1+c.Choose("range-lines", len(doc.Lines)), 0)}
			case 14, 16, 17:
				// ghost text on the empty line after the header being typed (weighted:
				// the one feature with a per-document cache over the include tree)
				gl := doc.GhostLines()
				method, params = "textDocument/inlineCompletion", J{"textDocument": docID(doc.URI), "position": pos(gl[c.Choose("ghost", len(gl))], 0)}
			case 15:
				// Server.CodeAction reads the settings and the CLI client that
				// configuration refreshes replace
				method, params = "verif/codeAction", J{"textDocument": docID(doc.URI), "range": rng(l, 0, l, 0), "context": J{"diagnostics": []any{}}}
			}
			request(op, doc, method, params, l, ch, occ, false)
			lastReq = &echoReq{doc, method, params, l, ch, occ}
		}
		if closed {
			break
		}
		// the same request again after a state change: whatever the server cached
		// for the first answer must not survive the change
		if kind != 3 && lastReq != nil && lastReq.doc.Open && !failed && c.Pct("echo-request", 35) {
			if c.Bool("echo-at-quiescence") {
				answerConfig(true)
				d.Quiesce()
			}
			ctx.Stats.Inc("probe:request-repeated-after-a-state-change")
			request(op, lastReq.doc, lastReq.method, lastReq.params, lastReq.l, lastReq.ch, lastReq.occ, true)
		}
		// ... and after background work that was pending during the first answer
		// has finished, with no state change in between: what a request computed
		// from a half-finished state (and may have cached once the work had
		// finished) must not be served afterwards
		if kind == 3 && lastReq != nil && lastReq.doc.Open && !failed && lastPending > 0 && c.Pct("echo-after-settling", settlePct) {
			answerConfig(true)
			d.Quiesce()
			ctx.Stats.Inc("probe:request-repeated-after-pending-work-finished")
			request(op, lastReq.doc, lastReq.method, lastReq.params, lastReq.l, lastReq.ch, lastReq.occ, true)
		}
		answerConfig(false)
		d.PumpN(c.Choose("steps-between", 14))
		scanOut()
		if len(d.S.Panics)+len(d.Sess.Panics) > 0 {
			break
		}
	}
	if !closed {
		answerConfig(true)
	}
	d.Quiesce()
	scanOut()
	ps := append(append([]simrt.PanicInfo(nil), d.S.Panics...), d.Sess.Panics...)
	if len(ps) > 0 {
		fail("invariant", "crash", fmt.Sprintf("panic in %s: %s\n%s", ps[0].Task, ps[0].Value, trunc(ps[0].Stack, 1500)), nil)
	}
	if d.Livelock {
		fail("invariant", "livelock", "step budget (20000) exhausted with runnable tasks", nil)
	}
	if d.Deadlock != "" {
		fail("invariant", "deadlock", d.Deadlock, nil)
	}
	ctx.NonTrivial = d.MaxLive >= 2 || answeredWhilePending > 0
	sort.Strings(kinds)
	ctx.SigExtra = strings.Join(kinds, ",")
	if d.MaxLive >= 2 {
		ctx.Stats.Inc("probe:two-tasks-alive")
	}
	if answeredWhilePending > 0 {
		ctx.Stats.Inc("probe:request-served-while-task-pending")
	}
	ctx.Stats.Add("responses-compared-with-fresh-reference", int64(compared))
	ctx.Stats.Add("cold-references-built", int64(comparedCold))
	ctx.Stats.Add("lagging-references-built", int64(comparedLag))
	ctx.Stats.Add("preemptions", int64(d.Preemptions))
	ctx.Stats.Max("max:live-tasks", int64(d.MaxLive))
	ctx.Stats.State("c14", workspace, len(w.OpenDocs()), d.MaxLive)
}

var todayRe = regexp.MustCompile(`"detail":"today","kind":\d+,"label":"(\d{4}-\d{2}-\d{2})"`)

func canonAny(v any) string {
	b, _ := jsonMarshal(v)
	return string(b)
}

// diffHint shows a with the common prefix/suffix against b elided.
func diffHint(a, b string) string {
	i := 0
	for i < len(a) && i < len(b) && a[i] == b[i] {
		i++
	}
	j := 0
	for j < len(a)-i && j < len(b)-i && a[len(a)-1-j] == b[len(b)-1-j] {
		j++
	}
	start := i - 40
	if start < 0 {
		start = 0
	}
	end := len(a) - j + 40
	if end > len(a) {
		end = len(a)
	}
	return "…" + a[start:end] + "…"
}
