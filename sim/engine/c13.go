//go:build verifsim

package engine

import (
	"encoding/json"
	"fmt"
	"regexp"
	"sort"
	"strconv"
	"strings"

	"github.com/juev/hledger-lsp/internal/verifsim/simrt"
	"github.com/juev/hledger-lsp/internal/verifsim/simwire"
)

// C13: published diagnostics converge to the latest content under any timing.
type c13 struct{}

func init() { Register(c13{}) }

func (c13) Name() string { return "c13" }
func (c13) Rule() string {
	return "full-server simulation over the wire: 1..2 open documents carrying version markers (every version n of document d is unbalanced by exactly n+1 MRK), a burst of 2..5 didChange/didClose+didOpen notifications, background publish tasks scheduled by the simulator; at quiescence the LAST publishDiagnostics of every open URI must carry the marker of the latest version and no other. Enumerated part: for bursts of 2,3,4 changes x {one document, two documents alternating} x policy A (all analyses run to the publish point in spawn order, publishes released in order pi) and B (tasks run to completion in order pi) x EVERY permutation pi: 128 schedules, exhaustive for those shapes. Seeded part: bursts of 2..5 with fine-grained preemption at every yield (locks, sync.Map, disk, client calls) under 7 schedule policies, with/without workspace, notifications arriving while tasks are mid-way. Non-trivial: >= 2 publish tasks alive at once. Distinct: schedule signature (sequence of (task, request kind, site) scheduler picks)."
}

var c13Perms = func() [][]int {
	// all permutations of 2, 3, 4 in lexicographic order
	var out [][]int
	for k := 2; k <= 4; k++ {
		p := make([]int, k)
		for i := range p {
			p[i] = i
		}
		var rec func(i int)
		rec = func(i int) {
			if i == k {
				out = append(out, append([]int(nil), p...))
				return
			}
			for j := i; j < k; j++ {
				p[i], p[j] = p[j], p[i]
				rec(i + 1)
				p[i], p[j] = p[j], p[i]
			}
		}
		rec(0)
	}
	return out
}()

func (c13) Enumerated(string) int            { return len(c13Perms) * 4 }
func (c13) Components() ([]string, []string) { return serverComponents() }

func serverComponents() ([]string, []string) {
	return []string{"internal/server (all handlers)", "generated copy of cmd/hledger-lsp serverDispatcher", "go.lsp.dev/protocol ServerHandler/ClientDispatcher", "go.lsp.dev/jsonrpc2 Conn+Stream (real framing, real read loop)", "internal/include", "internal/workspace", "internal/analyzer", "internal/parser", "internal/formatter", "internal/lsputil", "doublestar matcher", "shopspring/decimal"},
		[]string{"stdin/stdout (simwire byte transport with chunking)", "goroutine scheduling (simrt: one task at a time, seeded picks)", "sync.Mutex/RWMutex/Map blocking (simsync wrappers around the real primitives)", "map iteration order (simrt.MapSeq)", "disk+environment (simfs)", "clock (simclock)", "process spawn (simexec: hledger not installed unless exec-ok)", "the editor (client model in sim/engine)"}
}

var mrkRe = regexp.MustCompile(`MRK off by (\d+)`)

// StampText is the text of version n of document d (journal profile + marker).
func StampText(d, n int, extra string) string {
	return fmt.Sprintf("; doc d%d version %d\n%s2024-01-01 stamp d%d v%d\n    v:d%d:v%d    %d MRK\n    v:sink          0 MRK\n2024-03-01 stamp d%d v%d\n\n", d, n, extra, d, n, d, n, n+1, d, n)
}

// publishMarkers extracts the MRK residuals of a publishDiagnostics payload.
func publishMarkers(params json.RawMessage) (uri string, marks []int) {
	var p struct {
		URI         string `json:"uri"`
		Diagnostics []struct {
			Message string `json:"message"`
		} `json:"diagnostics"`
	}
	json.Unmarshal(params, &p)
	for _, d := range p.Diagnostics {
		for _, m := range mrkRe.FindAllStringSubmatch(d.Message, -1) {
			n, _ := strconv.Atoi(m[1])
			marks = append(marks, n)
		}
	}
	sort.Ints(marks)
	return p.URI, marks
}

func (c13) Run(ctx *RunCtx) {
	c := ctx.C
	env := NewEnv()
	env.Disk.Env["HOME"] = "/sim"
	env.Disk.WriteFile("/sim/ws/main.journal", []byte(StampText(1, 0, "include a.journal\n")))
	env.Disk.WriteFile("/sim/ws/a.journal", []byte(StampText(2, 0, "")))
	enumerated := ctx.Param >= 0
	var perm []int
	twoDocs, polB := false, false
	if enumerated {
		perm = c13Perms[ctx.Param/4]
		twoDocs = ctx.Param%4/2 == 1
		polB = ctx.Param%2 == 1
	}
	workspace := c.Bool("workspace")
	policy := PolHoldBg
	if !enumerated {
		policy = c.Choose("policy", numPolicies)
	}
	d := NewDriver(ctx, c, env, policy, "sut", ctx.Log)
	if !enumerated && c.Pct("map-permute", 30) {
		d.MapSalt = uint64(1 + c.Choose("map-salt", 1<<16))
	}
	if !enumerated && c.Pct("chunking", 40) {
		d.Sess.Chunk = func(max int) int { return 1 + c.Choose("chunk", max) }
	}
	root := ""
	if workspace {
		root = "/sim/ws"
	}
	// configuration mode: the client toggles features.diagnostics during the burst
	// and answers the server's workspace/configuration requests at once or late,
	// so that refresh tasks and analyses started under different settings overlap
	cfgMode := !enumerated && c.Pct("cfg-mode", 35)
	cliDiag := true // what the client answers workspace/configuration with
	if cfgMode {
		cliDiag = c.Bool("diagnostics-initially-on")
	}
	cfgPayload := func(on bool) J { return J{"features": J{"diagnostics": on}} }
	ctx.T("policy=%s workspace=%v enumerated=%v perm=%v twoDocs=%v policyB=%v cfgMode=%v diagnostics=%v", policyNames[policy], workspace, enumerated, perm, twoDocs, polB, cfgMode, cliDiag)
	fail := func(class, msg string) {
		ctx.T("VERDICT %s: %s", class, msg)
		ctx.Fail(&Violation{Property: "C13", Oracle: "last-publish-marker", Class: class, Msg: msg})
	}
	defer d.Teardown()
	var initOpts any
	if cfgMode {
		initOpts = J{"hledger": cfgPayload(cliDiag)}
	}
	folders := c.Bool("folders")
	if r := d.Call("initialize", InitParams(root, folders, cfgMode, initOpts)); r == nil {
		fail("no-initialize-response", "initialize was not answered")
		return
	}
	d.Notify("initialized", J{})
	d.Quiesce()
	answerCfg := func(all bool) {
		for _, id := range d.Sess.PendingServerRequests() {
			if all || c.Pct("cfg-answer-now", 60) {
				d.Sess.Respond(id, []any{cfgPayload(cliDiag)}, nil)
				ctx.T("client answers workspace/configuration #%s: features.diagnostics=%v", id, cliDiag)
			} else {
				ctx.Stats.Inc("fault:cfg-late")
			}
		}
	}
	if cfgMode {
		answerCfg(true)
		d.Quiesce()
	}
	// settled[i]: the last change of document i was sent while the server was
	// quiescent and the configuration did not change afterwards, i.e. the
	// settings its analysis runs under are unambiguous
	settled := []bool{true, true}
	var spawnDoc []int // document of the n-th analysis-spawning notification of the burst
	serverQuiet := func() bool {
		return d.LiveBg() == 0 && !d.Sess.InboundPending() && len(d.S.RunnableTasks()) == 0 && len(d.Sess.PendingServerRequests()) == 0
	}
	uris := []string{"file:///sim/ws/main.journal", "file:///sim/ws/a.journal"}
	extras := []string{"include a.journal\n", ""}
	version := []int{0, 0}
	open := []bool{false, false}
	ndocs := 1
	if twoDocs || (!enumerated && c.Bool("two-docs")) {
		ndocs = 2
	}
	rev := []int{0, 0}
	maxVer := []int{1, 1}     // highest marker version generated per document
	lspVer := []int{1, 1}     // version numbers of the notifications
	hist := [][]int{{1}, {1}} // marker versions of the texts the document went through
	final := []string{"", ""}
	for i := 0; i < ndocs; i++ {
		version[i] = 1
		open[i] = true
		final[i] = StampText(i+1, 1, extras[i])
		d.Notify("textDocument/didOpen", J{"textDocument": J{"uri": uris[i], "languageId": "hledger", "version": 1, "text": StampText(i+1, 1, extras[i])}})
		ctx.T("didOpen d%d v1", i+1)
	}
	d.Quiesce()
	if d.Deadlock != "" || d.Livelock {
		fail("no-quiescence", "server did not become quiescent after didOpen: "+d.Deadlock)
		return
	}
	firstBurstTask := len(d.S.Tasks)
	k := 0
	if enumerated {
		k = len(perm)
	} else {
		k = c.Range("burst", 2, 5)
	}
	// scripted configuration bursts (a third of the configuration runs): a
	// change, the feature switched over, a change that leaves the diagnostics as
	// they were, switched back, the same again - the orders in which "what was
	// published last" and "what is shown" can come apart
	var script []int
	if cfgMode && c.Pct("cfg-script", 35) {
		same := []int{3, 5}[c.Choose("script-same", 2)] // revision-only change or undo
		script = [][]int{{4, same, 4, same}, {0, 4, same, 4, same}, {4, 0, 4, same}, {same, 4, 4, same}}[c.Choose("script", 4)]
		k = len(script)
		ctx.Stats.Inc("probe:scripted-configuration-burst")
	}
	for b := 0; b < k; b++ {
		i := 0
		if ndocs == 2 {
			if enumerated {
				i = b % 2
			} else {
				i = c.Choose("burst-doc", 2)
			}
		}
		kind := 0
		if !enumerated {
			kind = c.Weighted("burst-kind", []int{6, 2, 1, 3, 0, 2})
		}
		if cfgMode && script == nil && c.Pct("cfg-toggle", 30) {
			kind = 4
		}
		if script != nil {
			kind = script[b]
		}
		if kind != 4 {
			settled[i] = serverQuiet()
			spawnDoc = append(spawnDoc, i) // one analysis task per didOpen/didChange
		}
		switch kind {
		case 4:
			cliDiag = !cliDiag
			settled[0], settled[1] = false, false
			d.Notify("workspace/didChangeConfiguration", J{"settings": nil})
			ctx.T("didChangeConfiguration: the client's features.diagnostics is now %v", cliDiag)
			ctx.Stats.Inc("probe:configuration-toggled-during-burst")
		case 3:
			// the text changes, its diagnostics do not: same marker, one more comment line
			rev[i]++
			text := StampText(i+1, version[i], extras[i]) + strings.Repeat("; rev\n", rev[i])
			final[i] = text
			lspVer[i]++
			d.Notify("textDocument/didChange", J{"textDocument": J{"uri": uris[i], "version": lspVer[i]}, "contentChanges": []J{{"text": text}}})
			ctx.T("didChange d%d: same version v%d, revision %d (diagnostics unchanged)", i+1, version[i], rev[i])
		case 5:
			// undo: back to the exact text of the version before (an analysis of the
			// version in between may still be running)
			if len(hist[i]) < 2 {
				continue
			}
			hist[i] = hist[i][:len(hist[i])-1]
			version[i] = hist[i][len(hist[i])-1]
			rev[i] = 0
			lspVer[i]++
			final[i] = StampText(i+1, version[i], extras[i])
			d.Notify("textDocument/didChange", J{"textDocument": J{"uri": uris[i], "version": lspVer[i]}, "contentChanges": []J{{"text": final[i]}}})
			ctx.T("didChange d%d: undo, back to the text of v%d", i+1, version[i])
			ctx.Stats.Inc("probe:undo-to-an-earlier-text")
		case 0, 1:
			maxVer[i]++
			version[i] = maxVer[i]
			hist[i] = append(hist[i], version[i])
			lspVer[i]++
			rev[i] = 0
			text := StampText(i+1, version[i], extras[i])
			final[i] = text
			change := J{"text": text}
			if kind == 1 {
				change["range"] = rng(0, 0, 1000, 0)
			}
			d.Notify("textDocument/didChange", J{"textDocument": J{"uri": uris[i], "version": lspVer[i]}, "contentChanges": []J{change}})
			ctx.T("didChange d%d -> v%d (%s)", i+1, version[i], map[int]string{0: "range-less", 1: "whole-document range"}[kind])
		case 2:
			d.Notify("textDocument/didClose", J{"textDocument": docID(uris[i])})
			maxVer[i]++
			version[i] = maxVer[i]
			hist[i] = []int{version[i]}
			lspVer[i]++
			rev[i] = 0
			final[i] = StampText(i+1, version[i], extras[i])
			d.Notify("textDocument/didOpen", J{"textDocument": J{"uri": uris[i], "languageId": "hledger", "version": lspVer[i], "text": final[i]}})
			ctx.T("didClose + didOpen d%d -> v%d", i+1, version[i])
		}
		if !enumerated {
			d.PumpN(c.Choose("steps-between", 12))
		}
		if cfgMode {
			answerCfg(false)
		}
	}
	if cfgMode {
		// every request is answered eventually; the answers carry what the
		// client's configuration is at that moment
		for n := 0; n < 8; n++ {
			d.Quiesce()
			if len(d.Sess.PendingServerRequests()) == 0 {
				break
			}
			answerCfg(true)
		}
	}
	if enumerated {
		// dispatcher only, until all notifications are handled
		d.Pump(func() bool { return !d.Sess.InboundPending() && !d.S.Runnable(d.Sess.Disp) }, false)
		var tasks []*simrt.Task
		for _, t := range d.S.Tasks[firstBurstTask:] {
			tasks = append(tasks, t)
		}
		if len(tasks) != k {
			// this tree does not start one analysis task per change (it may
			// debounce or coalesce them): the permutation cannot be imposed, the
			// burst simply runs to quiescence and the oracle below judges the outcome
			ctx.T("the burst started %d background tasks, not %d: schedule enumeration not applicable to this tree", len(tasks), k)
			ctx.Stats.Inc("probe:enumeration-not-applicable")
			tasks = nil
			perm = nil
		}
		runTo := func(t *simrt.Task, publishPoint bool) {
			for n := 0; n < 5000 && t.State == simrt.StParked; n++ {
				if publishPoint {
					if r := d.S.Pending(t); r != nil && r.Kind == "client.publish" {
						return
					}
				}
				if !d.S.Runnable(t) {
					return
				}
				d.S.Step(t)
			}
		}
		if tasks == nil {
			// nothing to impose
		} else if !polB {
			for _, t := range tasks {
				runTo(t, true)
			}
			ctx.T("policy A: all %d analyses at their publish point; releasing publishes in order %v", k, perm)
		} else {
			ctx.T("policy B: running tasks to completion in order %v", perm)
		}
		for _, pi := range perm {
			runTo(tasks[pi], false)
		}
	}
	d.Quiesce()
	if d.MaxLive >= 2 || enumerated {
		ctx.NonTrivial = true
		ctx.Stats.Inc("probe:two-publish-tasks-alive")
	}
	ctx.Stats.Max("max:live-tasks", int64(d.MaxLive))
	ctx.Stats.Add("preemptions", int64(d.Preemptions))
	if d.Sess.SplitHeader > 0 {
		ctx.Stats.Inc("probe:frame-split-in-header")
	}
	if d.Sess.SplitBody > 0 {
		ctx.Stats.Inc("probe:frame-split-in-body")
	}
	if len(d.S.Panics)+len(d.Sess.Panics) > 0 {
		ps := append(d.S.Panics, d.Sess.Panics...)
		fail("crash", fmt.Sprintf("panic in %s: %s", ps[0].Task, ps[0].Value))
		return
	}
	if d.Livelock {
		fail("no-quiescence", "step budget exhausted before quiescence (livelock)")
		return
	}
	if d.Deadlock != "" {
		fail("no-quiescence", "deadlock: "+d.Deadlock)
		return
	}
	// order of publishes vs spawn order (probe)
	var lastMarks = map[string][]int{}
	var seqs = map[string][]int{}
	for i := range d.Sess.Out {
		m := &d.Sess.Out[i]
		if m.Method != "textDocument/publishDiagnostics" {
			continue
		}
		u, marks := publishMarkers(m.Params)
		lastMarks[u] = marks
		if len(marks) == 1 {
			seqs[u] = append(seqs[u], marks[0])
		}
	}
	for _, u := range uris {
		if !sort.IntsAreSorted(seqs[u]) {
			ctx.Stats.Inc("probe:publish-order-differs-from-version-order")
		}
	}
	// second oracle: the last diagnostics of every open document equal those a
	// fresh sequential server publishes for the final texts
	lastPub := func(out []simwire.Msg) map[string]string {
		m := map[string]string{}
		for i := range out {
			if out[i].Method == "textDocument/publishDiagnostics" {
				var p struct {
					URI         string          `json:"uri"`
					Diagnostics json.RawMessage `json:"diagnostics"`
				}
				json.Unmarshal(out[i].Params, &p)
				m[p.URI] = canon(p.Diagnostics)
			}
		}
		return m
	}
	// publisher attributes the last publish of document i to the burst change
	// whose analysis task wrote it (ok=false: not written by such a task, or the
	// tasks cannot be matched to the notifications one to one)
	analysisTasks := func() []*simrt.Task {
		var analysis []*simrt.Task
		for _, t := range d.S.Tasks[firstBurstTask:] {
			if !strings.Contains(t.Site, "settings.go") {
				analysis = append(analysis, t)
			}
		}
		return analysis
	}
	// publishedBy: the diagnostics the analysis task of burst change n published last for document i ("" = none)
	publishedBy := func(i, n int) string {
		analysis := analysisTasks()
		out := ""
		for k := range d.Sess.Out {
			if m := &d.Sess.Out[k]; m.Method == "textDocument/publishDiagnostics" && n < len(analysis) && m.Task == analysis[n].ID {
				var p struct {
					URI         string          `json:"uri"`
					Diagnostics json.RawMessage `json:"diagnostics"`
				}
				json.Unmarshal(m.Params, &p)
				if p.URI == uris[i] {
					out = canon(p.Diagnostics)
				}
			}
		}
		return out
	}
	publisher := func(i int) (by, latest int, ok bool) {
		analysis := analysisTasks()
		if len(analysis) != len(spawnDoc) {
			return 0, 0, false
		}
		lastTask := -1
		for k := range d.Sess.Out {
			if m := &d.Sess.Out[k]; m.Method == "textDocument/publishDiagnostics" {
				if u, _ := publishMarkers(m.Params); u == uris[i] {
					lastTask = m.Task
				}
			}
		}
		by, latest = -1, -1
		for n, t := range analysis {
			if spawnDoc[n] == i {
				latest = n
			}
			if t.ID == lastTask {
				by = n
			}
		}
		if by < 0 || latest < 0 || spawnDoc[by] != i {
			return 0, 0, false
		}
		return by, latest, true
	}
	if !ctx.Race && len(ctx.Violations) == 0 {
		spec := RefSpec{Env: env.Clone(), Init: InitParams(root, false, false, nil), Initialized: true}
		for i := 0; i < ndocs; i++ {
			if open[i] {
				spec.Docs = append(spec.Docs, RefDoc{URI: uris[i], Text: final[i]})
			}
		}
		ref := StartRef(ctx, spec)
		ref.D.Quiesce()
		want := lastPub(ref.D.Sess.Out)
		ref.Close()
		d.Resume()
		got := lastPub(d.Sess.Out)
		for i := 0; i < ndocs; i++ {
			if !open[i] {
				continue
			}
			g, w := got[uris[i]], want[uris[i]]
			if cfgMode {
				// with diagnostics switched off the server publishes an empty list
				switch {
				case settled[i] && !cliDiag:
					w = "[]"
				case !settled[i] && g == "[]":
					// the analysis of the latest change may have run under either
					// setting - but the empty list must not come from the analysis of
					// a superseded change of this document
					// (with diagnostics switched off in the end an empty list is what a
					// fresh server shows too, whoever sent it)
					if by, latest, ok := publisher(i); cliDiag && ok && by != latest && publishedBy(i, latest) != "[]" {
						fail("stale-final-publish", fmt.Sprintf("document d%d: the last publish (an empty list, diagnostics switched off) was sent by the analysis of its change #%d of the burst although the analysis of its latest change #%d published %s: diagnostics computed for a superseded version remain the final word", i+1, by+1, latest+1, map[bool]string{true: "nothing at all", false: trunc(publishedBy(i, latest), 200)}[publishedBy(i, latest) == ""]))
						return
					}
					ctx.Stats.Inc("probe:final-publish-under-unsettled-configuration")
					w = "[]"
				}
			}
			if g != w {
				fail("final-diagnostics-differ-from-latest-content", fmt.Sprintf("the last diagnostics published for d%d are %s; a fresh server given the final text (features.diagnostics=%v, settled=%v) publishes %s", i+1, trunc(g, 300), cliDiag, settled[i], trunc(w, 300)))
				return
			}
		}
	}
	for i := 0; i < ndocs; i++ {
		if !open[i] {
			continue
		}
		marks, ok := lastMarks[uris[i]]
		ctx.T("d%d latest v%d; publishes carried markers %v (marker = version+1); last publish: %v", i+1, version[i], seqs[uris[i]], marks)
		ctx.Stats.State("c13", i, version[i], fmt.Sprint(seqs[uris[i]]))
		if !ok {
			fail("no-publish", fmt.Sprintf("no diagnostics were ever published for open document d%d", i+1))
			return
		}
		if cfgMode && len(marks) == 0 && (!settled[i] || !cliDiag) {
			continue // an empty list is legal here (judged above against the fresh server)
		}
		want := version[i] + 1
		if len(marks) != 1 || marks[0] != want {
			var stale []string
			for _, m := range marks {
				if m != want {
					stale = append(stale, fmt.Sprintf("v%d", m-1))
				}
			}
			fail("stale-final-publish", fmt.Sprintf("document d%d is at v%d but the last diagnostics published for it were computed from %s (publish sequence by version: %s)",
				i+1, version[i], strings.Join(stale, ","), fmtVersions(seqs[uris[i]])))
			return
		}
	}
}

func fmtVersions(marks []int) string {
	var out []string
	for _, m := range marks {
		out = append(out, "v"+strconv.Itoa(m-1))
	}
	return strings.Join(out, " ")
}

var _ = simwire.Msg{}
