//go:build verifsim

package engine

import (
	"fmt"
	"net/url"
	"strings"

	"github.com/juev/hledger-lsp/internal/verifsim/simrt"
)

// JDoc is one document of the journal-profile world used by the server-level
// engines: every version carries a stamp transaction (version marker), an
// include list, optional declarations and a few transactions over shared names.
type JDoc struct {
	No        int
	URI, Path string
	Open      bool
	OpenOrder int
	LSPVer    int
	Marker    int    // marker version of the current buffer
	MaxMark   int    // highest marker version ever generated for this document
	History   []int  // marker versions of the buffer since the document was opened, oldest first
	Text      string // current buffer (open) — what a client holds
	DiskMark  int    // marker version on disk, -1 = not on disk
	Includes  []string
	Lines     []GLine
	Versions  map[int]string // marker version -> text
	VerLines  map[int][]GLine
	VerIncs   map[int][]string
	InTree    bool
	// what is on disk (nil = not on disk)
	DiskLines    []GLine
	DiskIncludes []string
}

// View returns what the workspace should see of this document: the open
// buffer, else the disk content (ok=false: neither).
func (d *JDoc) View() (lines []GLine, includes []string, ok bool) {
	if d.Open {
		return d.Lines, d.Includes, true
	}
	if d.DiskMark >= 0 {
		return d.DiskLines, d.DiskIncludes, true
	}
	return nil, nil, false
}

// Tree lists the documents reachable from root through include lines, using
// View of each (root first, then include order, each once).
func (w *JWorld) Tree(root *JDoc) []*JDoc {
	var out []*JDoc
	seen := map[*JDoc]bool{}
	var rec func(d *JDoc)
	rec = func(d *JDoc) {
		if seen[d] {
			return
		}
		_, incs, ok := d.View()
		if !ok {
			return
		}
		seen[d] = true
		out = append(out, d)
		for _, inc := range incs {
			for _, o := range w.Docs {
				if o.Path == "/sim/ws/"+inc {
					rec(o)
				}
			}
		}
	}
	rec(root)
	return out
}

type JWorld struct {
	Env         *Env
	Root        string // workspace root or ""
	Docs        []*JDoc
	Pools       *Pools
	openCount   int
	VaryFormats bool   // commodity directives draw their display format per version
	Agg         bool   // every version carries the aggregation block
	DeepTree    bool   // a.journal may include b.journal
	Assertions  bool   // every version carries a transaction with a cost and a balance assertion (C18)
	BName       string // file name of document 3 ("b.journal" or a name that needs percent-encoding in URIs)
}

var jPaths = []string{"/sim/ws/main.journal", "/sim/ws/a.journal", "/sim/ws/b.journal", "/sim/ws/new.journal"}

// comLine is a posting line that ends in commodity com (registered as an occurrence).
func comLine(text, com string, occs ...Occ) GLine {
	return line(text, append(occs, Occ{Kind: "commodity", Name: com, Start: len(text) - len(com), End: len(text)})...)
}

// fileURI is the file: URI of an absolute path, percent-encoded like editors do.
func fileURI(p string) string {
	segs := strings.Split(p, "/")
	for i, sg := range segs {
		// like VS Code: more than the path grammar requires
		segs[i] = strings.NewReplacer("+", "%2B", "@", "%40", "=", "%3D").Replace(url.PathEscape(sg))
	}
	return "file://" + strings.Join(segs, "/")
}

// normURI spells a file: URI canonically (decoded), so that the client's and
// the server's spelling of one and the same path compare equal.
func normURI(u string) string {
	if d, err := url.PathUnescape(u); err == nil {
		return d
	}
	return u
}

// GenJText draws the text of version v of doc.
func (w *JWorld) GenJText(c *simrt.Chooser, doc *JDoc, v int, includes []string) (string, []GLine) {
	var lines []GLine
	lines = append(lines, line(fmt.Sprintf("; doc d%d version %d", doc.No, v)))
	for _, inc := range includes {
		lines = append(lines, line("include "+inc))
	}
	if c.Pct("decl", 25) {
		// pool accounts sit under the standard top-level categories; the marker
		// and template accounts do not, so declaring some of them (or a parent)
		// decides which postings of which documents are warned about
		a := pick(c, "decl-acct", append(append([]string(nil), w.Pools.Accounts...), "v:sink", "tp", "tp:sink", "v", "agg:all"))
		lines = append(lines, line("account "+a, Occ{Kind: "account", Name: a, Start: 8, End: 8 + len(a), Decl: true}))
	}
	if c.Pct("decl-com", 20) {
		cm := pick(c, "decl-com", w.Pools.Commods)
		if w.Assertions && c.Pct("decl-special-commodity", 50) {
			cm = []string{"ASR", "CSX", "CST", "MRK", "TPL"}[c.Choose("special-commodity", 5)]
		}
		f := commodityFmt[cm]
		if f == "" {
			f = "1.00 " + cm
		}
		if w.VaryFormats {
			// the display format of a commodity changes between versions: a stale
			// format cache then shows in formatting answers
			f = []string{"1,000.00 ", "1.000,00 ", "1 000.00 ", "1000.0000 "}[c.Choose("com-format", 4)] + cm
		}
		st := strings.LastIndex(f, cm)
		lines = append(lines, line("commodity "+f, Occ{Kind: "commodity", Name: cm, Start: 10 + st, End: 10 + st + len(cm), Decl: true}))
	}
	stampPayee := fmt.Sprintf("stamp d%d v%d", doc.No, v)
	stampAcct := fmt.Sprintf("v:d%d:v%d", doc.No, v)
	lines = append(lines,
		line("2024-01-01 "+stampPayee, Occ{Kind: "payee", Name: stampPayee, Start: 11, End: 11 + len(stampPayee)}),
		comLine(fmt.Sprintf("    %s    %d MRK", stampAcct, v+1), "MRK", Occ{Kind: "account", Name: stampAcct, Start: 4, End: 4 + len(stampAcct)}),
		comLine("    v:sink          0 MRK", "MRK", Occ{Kind: "account", Name: "v:sink", Start: 4, End: 10}),
		line(""))
	if w.Agg {
		// aggregation weights (DESIGN 4.3): document i posts 10^(i-1) W to agg:all exactly once
		wt := 1
		for i := 1; i < doc.No; i++ {
			wt *= 10
		}
		lines = append(lines,
			line("2024-01-05 aggpayee  ; aggtag:v", Occ{Kind: "payee", Name: "aggpayee", Start: 11, End: 19}, Occ{Kind: "tag", Name: "aggtag", Start: 23, End: 29}),
			line(fmt.Sprintf("    agg:all  %d W", wt), Occ{Kind: "account", Name: "agg:all", Start: 4, End: 11}, Occ{Kind: "commodity", Name: "W", Start: 13 + len(fmt.Sprint(wt)) + 1, End: 13 + len(fmt.Sprint(wt)) + 2}),
			line("    agg:sink", Occ{Kind: "account", Name: "agg:sink", Start: 4, End: 12}),
			line(""))
	}
	if w.Assertions {
		// commodities that occur only in a cost or in the balance assertion of an
		// amount-less posting
		lines = append(lines,
			line("2024-02-05 asserted", Occ{Kind: "payee", Name: "asserted", Start: 11, End: 19}),
			comLine("    assets:bank  = 100 ASR", "ASR", Occ{Kind: "account", Name: "assets:bank", Start: 4, End: 15}),
			line("    assets:cash  5 CST @ 2 CSX", Occ{Kind: "account", Name: "assets:cash", Start: 4, End: 15}, Occ{Kind: "commodity", Name: "CST", Start: 19, End: 22}, Occ{Kind: "commodity", Name: "CSX", Start: 27, End: 30}),
			line("    income:salary", Occ{Kind: "account", Name: "income:salary", Start: 4, End: 17}),
			line(""))
	}
	nt := c.Choose("ntxn", 3)
	for i := 0; i < nt; i++ {
		lines = append(lines, GenTxn(c, c.Choose("day", 300), w.Pools)...)
		lines = append(lines, line(""))
	}
	// every document defines the payee "tpl d<d>" with a posting template that
	// names the version ...
	tplPayee := fmt.Sprintf("tpl d%d", doc.No)
	tplAcct := fmt.Sprintf("tp:d%d:v%d", doc.No, v)
	lines = append(lines,
		line("2024-02-01 "+tplPayee, Occ{Kind: "payee", Name: tplPayee, Start: 11, End: 11 + len(tplPayee)}),
		comLine("    "+tplAcct+"    1 TPL", "TPL", Occ{Kind: "account", Name: tplAcct, Start: 4, End: 4 + len(tplAcct)}),
		line("    tp:sink", Occ{Kind: "account", Name: "tp:sink", Start: 4, End: 11}),
		line(""))
	// a transaction being typed: header of the stamp payee followed by an empty
	// line, which is where inline completion offers the payee's posting template
	lines = append(lines, line("2024-03-01 "+stampPayee, Occ{Kind: "payee", Name: stampPayee, Start: 11, End: 11 + len(stampPayee)}), line(""))
	// ... and starts a transaction for the template payee of every OTHER
	// document: the ghost text offered there comes from another file of the tree
	for k := 1; k <= len(jPaths); k++ {
		if k == doc.No {
			continue
		}
		other := fmt.Sprintf("tpl d%d", k)
		lines = append(lines, line(fmt.Sprintf("2024-03-%02d %s", 1+k, other), Occ{Kind: "payee", Name: other, Start: 11, End: 11 + len(other)}), line(""))
	}
	var b strings.Builder
	for _, l := range lines {
		b.WriteString(l.Text)
		b.WriteByte('\n')
	}
	return b.String(), lines
}

// GhostLine returns the empty line after the "transaction being typed" header.
func (d *JDoc) GhostLine() int {
	for i := len(d.Lines) - 1; i > 0; i-- {
		if d.Lines[i].Text == "" && strings.HasPrefix(d.Lines[i-1].Text, "2024-03-01 stamp") {
			return i
		}
	}
	return 0
}

// NewJWorld creates main.journal (includes a.journal), a.journal, b.journal
// (not included: outside the tree) on disk, and an unsaved fourth document.
func NewJWorld(c *simrt.Chooser, workspace bool, flags ...string) *JWorld {
	w := &JWorld{Env: NewEnv(), Pools: DefaultPools()}
	for _, f := range flags {
		switch f {
		case "agg":
			w.Agg = true
		case "deep":
			w.DeepTree = true
		case "formats":
			w.VaryFormats = true
		case "assertions":
			w.Assertions = true
		}
	}
	w.Env.Disk.Env["HOME"] = "/sim"
	if workspace {
		w.Root = "/sim/ws"
	}
	// a quarter of the worlds name b.journal with a blank and a non-ASCII letter:
	// its URI is then percent-encoded while include lines, the disk and the
	// server's path keys are not
	w.BName = "b.journal"
	if c.Pct("unusual-file-name", 30) {
		// "+" is a character Go's URI encoder leaves alone while editors
		// percent-encode it: the client's spelling of the URI then differs from
		// the one the server would derive from the path
		w.BName = []string{"b ü.journal", "b+ü x.journal"}[c.Choose("unusual-name", 2)]
	}
	for i, p := range jPaths {
		if i == 2 {
			p = "/sim/ws/" + w.BName
		}
		d := &JDoc{No: i + 1, URI: fileURI(p), Path: p, DiskMark: -1, Versions: map[int]string{}}
		w.Docs = append(w.Docs, d)
	}
	w.Docs[0].Includes = []string{"a.journal"}
	if c.Pct("main-includes-b", 30) {
		w.Docs[0].Includes = append(w.Docs[0].Includes, w.BName)
	}
	for _, d := range w.Docs[:3] {
		text, lines := w.GenJText(c, d, 0, d.Includes)
		d.Versions[0] = text
		d.remember(0, lines, d.Includes)
		d.DiskMark = 0
		d.Lines = lines
		d.DiskLines = lines
		d.DiskIncludes = append([]string(nil), d.Includes...)
		w.Env.Disk.WriteFile(d.Path, []byte(text))
	}
	return w
}

// OpenWithDisk marks doc open with exactly the text of its file (no new version).
func (w *JWorld) OpenWithDisk(doc *JDoc) J {
	w.openCount++
	doc.OpenOrder = w.openCount
	doc.Open = true
	doc.LSPVer++
	doc.Marker = doc.DiskMark
	doc.History = []int{doc.Marker}
	doc.Text, doc.Lines = doc.Versions[doc.DiskMark], doc.DiskLines
	doc.Includes = append([]string(nil), doc.DiskIncludes...)
	return J{"textDocument": J{"uri": doc.URI, "languageId": "hledger", "version": doc.LSPVer, "text": doc.Text}}
}

// OpenDocs lists open documents in open order.
func (w *JWorld) OpenDocs() []*JDoc {
	var out []*JDoc
	for _, d := range w.Docs {
		if d.Open {
			out = append(out, d)
		}
	}
	for i := 0; i < len(out); i++ {
		for j := i + 1; j < len(out); j++ {
			if out[j].OpenOrder < out[i].OpenOrder {
				out[i], out[j] = out[j], out[i]
			}
		}
	}
	return out
}

// NextVersion draws the next version of doc (possibly changing its include list).
func (w *JWorld) NextVersion(c *simrt.Chooser, doc *JDoc) string {
	doc.MaxMark++
	doc.Marker = doc.MaxMark
	doc.History = append(doc.History, doc.Marker)
	if doc.No == 1 && c.Pct("change-includes", 45) {
		// membership flaps: one of a.journal / b.journal leaves or (re-)enters the
		// tree, entering in front of or behind the other include line
		// (new.journal does not exist until its document is saved: an include
		// line may name a file that is created later)
		which := []string{"a.journal", w.BName, "new.journal"}[c.Weighted("flap-which", []int{3, 3, 2})]
		var keep []string
		had := false
		for _, inc := range doc.Includes {
			if inc == which {
				had = true
			} else {
				keep = append(keep, inc)
			}
		}
		if !had {
			if c.Bool("flap-in-front") {
				keep = append([]string{which}, keep...)
			} else {
				keep = append(keep, which)
			}
		}
		doc.Includes = keep
	}
	if w.DeepTree && doc.No == 2 && c.Pct("change-includes-a", 30) {
		switch c.Choose("a-includes", 3) {
		case 0:
			doc.Includes = nil
		case 1:
			doc.Includes = []string{w.BName}
		case 2:
			doc.Includes = []string{"new.journal"}
		}
	}
	if w.DeepTree && doc.No == 4 && c.Pct("change-includes-new", 30) {
		// the new, possibly never-saved document may have include lines of its own
		switch c.Choose("new-includes", 3) {
		case 0:
			doc.Includes = nil
		case 1:
			doc.Includes = []string{"a.journal"}
		case 2:
			doc.Includes = []string{w.BName}
		}
	}
	text, lines := w.GenJText(c, doc, doc.Marker, doc.Includes)
	doc.Text, doc.Lines = text, lines
	doc.Versions[doc.Marker] = text
	doc.remember(doc.Marker, lines, doc.Includes)
	return text
}

// Open marks doc open with a new version and returns the didOpen params.
func (w *JWorld) Open(c *simrt.Chooser, doc *JDoc) J {
	w.openCount++
	doc.OpenOrder = w.openCount
	doc.Open = true
	doc.LSPVer++
	if doc.LSPVer > 1 && c.Pct("version-restarts", 50) {
		// a client is free to number the versions of a re-opened document from 1 again
		doc.LSPVer = 1
	}
	if doc.DiskMark >= 0 && c.Pct("open-with-disk-text", 40) {
		if w.Root != "" && c.Pct("rewritten-while-closed", 35) {
			// another program rewrote the file while it was closed (nobody told the
			// server); the editor now opens what is on disk
			var have []int
			for v := 0; v <= doc.MaxMark; v++ {
				if doc.Versions[v] != "" && v != doc.DiskMark {
					have = append(have, v)
				}
			}
			if len(have) > 0 {
				w.ExtWrite(doc, have[c.Choose("rewritten-to", len(have))])
			}
		}
		// what editors do: the buffer starts as the file on disk
		doc.Marker = doc.DiskMark
		doc.History = []int{doc.Marker}
		doc.Text, doc.Lines = doc.Versions[doc.DiskMark], doc.DiskLines
		doc.Includes = append([]string(nil), doc.DiskIncludes...)
		return J{"textDocument": J{"uri": doc.URI, "languageId": "hledger", "version": doc.LSPVer, "text": doc.Text}}
	}
	doc.History = nil
	text := w.NextVersion(c, doc)
	return J{"textDocument": J{"uri": doc.URI, "languageId": "hledger", "version": doc.LSPVer, "text": text}}
}

// Change returns didChange params moving doc to its next version.
func (w *JWorld) Change(c *simrt.Chooser, doc *JDoc) (J, string) {
	old := doc.Text
	doc.LSPVer++
	if len(doc.History) >= 2 && c.Pct("undo", 12) {
		// undo: back to the exact text of the version before
		m := doc.History[len(doc.History)-2]
		if doc.Versions[m] != "" && m != doc.Marker {
			doc.Marker = m
			doc.History = append(doc.History, m)
			doc.Text, doc.Lines = doc.Versions[m], doc.VerLines[m]
			doc.Includes = append([]string(nil), doc.VerIncs[m]...)
			return J{"textDocument": J{"uri": doc.URI, "version": doc.LSPVer}, "contentChanges": []J{{"text": doc.Text}}}, fmt.Sprintf("undo to the text of v%d", m)
		}
	}
	text := w.NextVersion(c, doc)
	var changes []J
	how := ""
	switch c.Choose("change-how", 4) {
	case 0:
		changes = []J{{"text": text}}
		how = "range-less"
	case 1:
		n := strings.Count(old, "\n")
		changes = []J{{"range": rng(0, 0, n, 0), "text": text}}
		how = "whole-document range"
	case 2:
		n := strings.Count(old, "\n")
		changes = []J{{"range": rng(0, 1, n, 0), "text": ""}, {"range": rng(0, 0, 0, 1), "text": text}}
		how = "delete all but first character, then replace it"
	case 3:
		// an insertion with the explicit empty range 0:0-0:0 (typing at the very
		// start of the document) must not be taken for a full replacement
		n := strings.Count(old, "\n")
		cut := strings.Index(text, "\n") + 1
		changes = []J{{"range": rng(0, 0, n, 0), "text": text[cut:]}, {"range": rng(0, 0, 0, 0), "text": text[:cut]}}
		how = "replace all by the text without its first line, then insert that line at 0:0-0:0"
	}
	return J{"textDocument": J{"uri": doc.URI, "version": doc.LSPVer}, "contentChanges": changes}, how
}

// Save writes the buffer to disk (as editors do) and returns didSave params.
func (w *JWorld) Save(doc *JDoc) J {
	w.Env.Disk.WriteFile(doc.Path, []byte(doc.Text))
	doc.DiskMark = doc.Marker
	doc.DiskLines = doc.Lines
	doc.DiskIncludes = append([]string(nil), doc.Includes...)
	return J{"textDocument": docID(doc.URI)}
}

func (d *JDoc) remember(v int, lines []GLine, incs []string) {
	if d.VerLines == nil {
		d.VerLines, d.VerIncs = map[int][]GLine{}, map[int][]string{}
	}
	d.VerLines[v] = lines
	d.VerIncs[v] = append([]string(nil), incs...)
}

// ExtWrite: another program overwrites the file of doc with the text of its
// version v, without telling anybody (fault ext-write).
func (w *JWorld) ExtWrite(doc *JDoc, v int) {
	w.Env.Disk.WriteFile(doc.Path, []byte(doc.Versions[v]))
	doc.DiskMark = v
	doc.DiskLines = doc.VerLines[v]
	doc.DiskIncludes = append([]string(nil), doc.VerIncs[v]...)
}

// GhostLines lists the empty lines after the headers of transactions being typed.
func (d *JDoc) GhostLines() []int {
	var out []int
	for i := 1; i < len(d.Lines); i++ {
		if d.Lines[i].Text == "" && strings.HasPrefix(d.Lines[i-1].Text, "2024-03-") {
			out = append(out, i)
		}
	}
	return out
}

// OccAt draws a position on an occurrence of the document (or anywhere).
func (w *JWorld) OccAt(c *simrt.Chooser, doc *JDoc) (lineNo, ch int, occ *Occ) {
	type lo struct {
		l int
		o Occ
	}
	var all []lo
	for i, l := range doc.Lines {
		for _, o := range l.Occs {
			all = append(all, lo{i, o})
		}
	}
	if len(all) > 0 && c.Pct("on-occurrence", 80) {
		x := all[c.Choose("occ", len(all))]
		return x.l, x.o.Start + c.Choose("occ-col", x.o.End-x.o.Start+1), &x.o
	}
	if len(doc.Lines) == 0 {
		return 0, 0, nil
	}
	l := c.Choose("line", len(doc.Lines))
	return l, c.Choose("col", len(doc.Lines[l].Text)+1), nil
}
