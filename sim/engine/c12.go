package engine

import (
	"fmt"
	"path"
	"reflect"
	"sort"
	"strings"

	"github.com/juev/hledger-lsp/internal/analyzer"
	"github.com/juev/hledger-lsp/internal/include"
	"github.com/juev/hledger-lsp/internal/parser"
	"github.com/juev/hledger-lsp/internal/verifsim/simfs"
	"github.com/juev/hledger-lsp/internal/verifsim/simrt"
	"github.com/juev/hledger-lsp/internal/workspace"
)

// C12: the incrementally maintained workspace view equals a rebuild.
type c12 struct{}

func init() { Register(c12{}) }

func (c12) Name() string { return "c12" }
func (c12) Rule() string {
	return "workspaces of 2..5 journal-profile files (shared payees/accounts/commodities/tags on purpose, account and commodity declarations, relative/./absolute/glob includes, cycles allowed) on the simulated disk; Workspace.Initialize, then 1..8 UpdateFile(path,newText) where newText is another journal-profile text that may change the include list (files become reachable/unreachable). Class S writes the text to the disk first (saved edit); class U passes unsaved text for files that are members. Optional sticky fault: a file that becomes reachable is missing/unreadable when first read; optional permuted map-iteration order in the workspace code. In 30% of the steps the update runs as a scheduled task interleaved, at every lock and disk call, with 1..2 tasks reading the derived views (declared accounts/commodities, commodity formats, index snapshot). After EVERY step a fresh Workspace+Loader is initialised on a clone of the disk overlaid with the unsaved member texts and the complete aggregated view is compared. Non-trivial: >= 1 update changed the member set or touched a file that shares a payee/account with another member. Distinct: hash of (include shapes, update sequence kinds)."
}
func (c12) Enumerated(string) int { return 0 }
func (c12) Components() ([]string, []string) {
	return []string{"internal/workspace (Workspace, WorkspaceIndex)", "internal/include", "internal/analyzer (collectors)", "internal/parser", "internal/formatter (number formats)"},
		[]string{"disk and environment (simfs) with sticky faults", "map iteration order (seeded permutation at every rewritten range site)", "sync.RWMutex (simsync, direct mode)"}
}

type wsView struct {
	Root             string
	Members          []string
	Snap             workspace.IndexSnapshot
	DeclAcct         map[string]bool
	DeclCom          map[string]bool
	Formats          any
	PerFileTemplates map[string]map[string][]analyzer.PostingTemplate
	// what the server serves from this view: the analysis over the resolved
	// tree (payee templates "later file wins", names in order of first use)
	Served *analyzer.AnalysisResult
}

func viewOf(w *workspace.Workspace) *wsView {
	v := &wsView{Root: w.RootJournalPath(), Snap: w.IndexSnapshot(), DeclAcct: w.GetDeclaredAccounts(), DeclCom: w.GetDeclaredCommodities(), Formats: w.GetCommodityFormats()}
	if r := w.GetResolved(); r != nil {
		for p := range r.Files {
			v.Members = append(v.Members, p)
		}
	}
	sort.Strings(v.Members)
	if r := w.GetResolved(); r != nil && r.Primary != nil {
		v.Served = analyzer.New().AnalyzeResolved(r)
	}
	return v
}

func sortedTxns(m map[string][]workspace.TransactionEntry) map[string][]string {
	out := map[string][]string{}
	for k, es := range m {
		var l []string
		for _, e := range es {
			l = append(l, fmt.Sprintf("%s@%d:%d-%d:%d %04d-%02d-%02d %q %q", e.FilePath, e.Range.Start.Line, e.Range.Start.Column, e.Range.End.Line, e.Range.End.Column, e.Date.Year, e.Date.Month, e.Date.Day, e.Payee, e.Description))
		}
		sort.Strings(l)
		out[k] = l
	}
	return out
}

func emptyNil[T any](m map[string]T) map[string]T {
	if len(m) == 0 {
		return nil
	}
	return m
}

// compareViews returns (field, detail) of the first difference.
func compareViews(sut, fresh *wsView, memberTexts map[string]string) (string, string) {
	if sut.Root != fresh.Root {
		return "root", fmt.Sprintf("incremental=%s rebuild=%s", sut.Root, fresh.Root)
	}
	if !reflect.DeepEqual(sut.Members, fresh.Members) && !(len(sut.Members) == 0 && len(fresh.Members) == 0) {
		return "members", fmt.Sprintf("incremental=%v rebuild=%v", sut.Members, fresh.Members)
	}
	a, b := sut.Snap, fresh.Snap
	type fld struct {
		name string
		x, y any
	}
	var accA, accB any
	if a.Accounts != nil {
		accA = [2]any{append([]string{}, a.Accounts.All...), emptyNil(a.Accounts.ByPrefix)}
	}
	if b.Accounts != nil {
		accB = [2]any{append([]string{}, b.Accounts.All...), emptyNil(b.Accounts.ByPrefix)}
	}
	flds := []fld{
		{"accounts", accA, accB},
		{"payees", append([]string{}, a.Payees...), append([]string{}, b.Payees...)},
		{"commodities", append([]string{}, a.Commodities...), append([]string{}, b.Commodities...)},
		{"tags", append([]string{}, a.Tags...), append([]string{}, b.Tags...)},
		{"tag-values", emptyNil(a.TagValues), emptyNil(b.TagValues)},
		{"dates", append([]string{}, a.Dates...), append([]string{}, b.Dates...)},
		{"account-counts", emptyNil(a.AccountCounts), emptyNil(b.AccountCounts)},
		{"payee-counts", emptyNil(a.PayeeCounts), emptyNil(b.PayeeCounts)},
		{"commodity-counts", emptyNil(a.CommodityCounts), emptyNil(b.CommodityCounts)},
		{"tag-counts", emptyNil(a.TagCounts), emptyNil(b.TagCounts)},
		{"tag-value-counts", emptyNil(a.TagValueCounts), emptyNil(b.TagValueCounts)},
		{"transaction-index", emptyNil(sortedTxns(a.Transactions)), emptyNil(sortedTxns(b.Transactions))},
		{"declared-accounts", emptyNil(sut.DeclAcct), emptyNil(fresh.DeclAcct)},
		{"declared-commodities", emptyNil(sut.DeclCom), emptyNil(fresh.DeclCom)},
		{"commodity-formats", fmt.Sprint(sut.Formats), fmt.Sprint(fresh.Formats)},
	}
	for _, f := range flds {
		if !reflect.DeepEqual(f.x, f.y) {
			return f.name, fmt.Sprintf("incremental=%v rebuild=%v", f.x, f.y)
		}
	}
	// what is served from the resolved tree (walks the files in order)
	if (sut.Served == nil) != (fresh.Served == nil) {
		return "served-view", fmt.Sprintf("incremental has a resolved tree: %v, rebuild: %v", sut.Served != nil, fresh.Served != nil)
	}
	if sut.Served != nil {
		if !reflect.DeepEqual(sut.Served.PayeeTemplates, fresh.Served.PayeeTemplates) {
			for _, payee := range keysOf(fresh.Served.PayeeTemplates) {
				if !reflect.DeepEqual(sut.Served.PayeeTemplates[payee], fresh.Served.PayeeTemplates[payee]) {
					return "served-payee-templates", fmt.Sprintf("the posting template served for payee %q is %v, a rebuild serves %v", payee, sut.Served.PayeeTemplates[payee], fresh.Served.PayeeTemplates[payee])
				}
			}
			return "served-payee-templates", "the incremental view serves templates for payees a rebuild has none for"
		}
		for _, f := range []fld{
			{"served-payees", sut.Served.Payees, fresh.Served.Payees},
			{"served-commodities", sut.Served.Commodities, fresh.Served.Commodities},
			{"served-tags", sut.Served.Tags, fresh.Served.Tags},
		} {
			if !reflect.DeepEqual(f.x, f.y) {
				return f.name, fmt.Sprintf("incremental=%v rebuild=%v", f.x, f.y)
			}
		}
	}
	// payee templates: a rebuild is itself order-dependent when two member files
	// define the same payee ("last file added wins"), so: the incremental view has
	// an entry iff some member file has one, and the entry equals the own template
	// of some member file.
	own := map[string][][]analyzer.PostingTemplate{}
	for _, p := range keysOf(memberTexts) {
		j, _ := parser.Parse(memberTexts[p])
		if j == nil {
			continue
		}
		t := analyzer.CollectPayeeTemplates(j)
		for _, payee := range keysOf(t) {
			own[payee] = append(own[payee], t[payee])
		}
	}
	for _, payee := range keysOf(own) {
		got, ok := a.PayeeTemplates[payee]
		if !ok {
			return "payee-templates", fmt.Sprintf("payee %q has a template in a member file but none in the incremental view", payee)
		}
		match := false
		for _, cand := range own[payee] {
			if reflect.DeepEqual(got, cand) {
				match = true
			}
		}
		if !match {
			return "payee-templates", fmt.Sprintf("template of payee %q equals no member file's template: %v", payee, got)
		}
	}
	for _, payee := range keysOf(a.PayeeTemplates) {
		if _, ok := own[payee]; !ok {
			return "payee-templates", fmt.Sprintf("incremental view has a template for payee %q that no member file defines", payee)
		}
	}
	return "", ""
}

var c12Paths = []string{"/sim/ws/main.journal", "/sim/ws/a.journal", "/sim/ws/b.journal", "/sim/ws/sub/c.journal", "/sim/ws/sub/d.journal"}

func c12Includes(c *simrt.Chooser, self int, n int, pct int, globs bool) []string {
	var out []string
	dir := path.Dir(c12Paths[self])
	for j := 0; j < n; j++ {
		if j == self && !c.Pct("self-include", 5) {
			continue
		}
		if j == 0 && !c.Pct("include-root", 10) {
			continue
		}
		if c.Pct("inc-edge", pct) {
			switch c.Weighted("inc-form", []int{6, 1, 1}) {
			case 0:
				out = append(out, relPath(dir, c12Paths[j]))
			case 1:
				out = append(out, "./"+relPath(dir, c12Paths[j]))
			case 2:
				out = append(out, c12Paths[j])
			}
		}
	}
	if globs && c.Pct("inc-glob", 8) {
		out = append(out, "sub/*.journal")
	}
	return out
}

func (c12) Run(ctx *RunCtx) {
	c := ctx.C
	simrt.Activate(nil)
	// map order: one salt per run, 0 = canonical
	salt := uint64(0)
	if c.Pct("map-permute", 50) {
		salt = uint64(1 + c.Choose("map-salt", 1<<16))
	}
	calls := map[string]int{}
	simrt.DirectMapOrder = func(site string, n int) []int {
		if salt == 0 {
			return nil
		}
		calls[site]++
		return simrt.PermFromHash(simrt.HashSite(salt, site, calls[site]), n)
	}
	defer func() { simrt.DirectMapOrder = nil }()

	disk := simfs.NewDisk()
	disk.Env["HOME"] = "/sim"
	n := c.Range("nfiles", 2, 5)
	pools := DefaultPools()
	// Root discovery is part of Initialize, not of the incrementally maintained
	// view: worlds whose root is elected from the include graph (no main.journal)
	// would make "the rebuild elects another root" look like an index defect, so
	// the root is always main.journal here (DESIGN 11).
	hasMain := true
	first := 0
	texts := map[string]string{}
	gen := func(i int) string {
		f := &GFile{Path: c12Paths[i], Lines: GenJournalBody(c, pools, c12Includes(c, i, n, 35, true), i)}
		return f.Text()
	}
	for i := first; i < n; i++ {
		texts[c12Paths[i]] = gen(i)
		disk.WriteFile(c12Paths[i], []byte(texts[c12Paths[i]]))
	}
	if c.Pct("noise-file", 20) {
		disk.WriteFile("/sim/ws/notes.txt", []byte("not a journal\n"))
	}
	for _, p := range disk.Paths() {
		ctx.T("disk %s:\n%s", p, indent(string(must(disk.Read(p)))))
	}
	simfs.Active = disk
	sut := workspace.NewWorkspace("/sim/ws", include.NewLoader())
	crashed := ""
	guard := func(f func()) {
		defer func() {
			if r := recover(); r != nil {
				crashed = fmt.Sprint(r)
			}
		}()
		f()
	}
	guard(func() { sut.Initialize() })
	unsaved := map[string]string{} // member path -> unsaved text
	var sig []string
	nontrivial := false
	check := func(step int, what string) bool {
		if crashed != "" {
			ctx.Fail(&Violation{Property: "C12", Oracle: "fresh-workspace", Class: "crash", Msg: fmt.Sprintf("step %d (%s): panic: %s", step, what, crashed)})
			return false
		}
		var sv *wsView
		guard(func() { sv = viewOf(sut) })
		if crashed != "" {
			ctx.Fail(&Violation{Property: "C12", Oracle: "fresh-workspace", Class: "crash", Msg: fmt.Sprintf("step %d (%s): panic while reading the view: %s", step, what, crashed)})
			return false
		}
		clone := disk.Clone()
		for _, p := range keysOf(unsaved) {
			clone.WriteFile(p, []byte(unsaved[p]))
		}
		simfs.Active = clone
		saveSalt := salt
		salt = 0
		fresh := workspace.NewWorkspace("/sim/ws", include.NewLoader())
		fresh.Initialize()
		fv := viewOf(fresh)
		salt = saveSalt
		simfs.Active = disk
		memberTexts := map[string]string{}
		for _, p := range append([]string{fv.Root}, fv.Members...) {
			if d, ok := clone.Read(p); ok {
				memberTexts[p] = string(d)
			}
		}
		// an unsaved text of a file that is no longer a member is not workspace content
		isMember := map[string]bool{fv.Root: true}
		for _, p := range fv.Members {
			isMember[p] = true
		}
		smember := map[string]bool{sv.Root: true}
		for _, p := range sv.Members {
			smember[p] = true
		}
		for _, p := range keysOf(unsaved) {
			if !isMember[p] || !smember[p] {
				delete(unsaved, p)
			}
		}
		if f, d := compareViews(sv, fv, memberTexts); f != "" {
			ctx.T("  MISMATCH after step %d (%s): %s: %s", step, what, f, d)
			ctx.Fail(&Violation{Property: "C12", Oracle: "fresh-workspace", Class: f,
				Msg: fmt.Sprintf("after step %d (%s) the incrementally maintained view differs from a rebuild in %s: %s", step, what, f, trunc(d, 600))})
			return false
		}
		ctx.Stats.State("c12", fv.Root, strings.Join(fv.Members, ","))
		return true
	}
	gone := map[string]bool{}
	if !check(0, "Initialize") {
		ctx.NonTrivial = true
		ctx.SigExtra = "init"
		return
	}
	nsteps := c.Range("nsteps", 1, 8)
	for step := 1; step <= nsteps; step++ {
		before := viewOf(sut)
		i := first + c.Choose("upd-file", n-first)
		p := c12Paths[i]
		text := gen(i)
		saved := c.Pct("saved", 60)
		if gone[p] {
			ctx.T("step %d: skipped (%s was deleted by a fault)", step, p)
			continue
		}
		member := p == before.Root
		for _, m := range before.Members {
			if m == p {
				member = true
			}
		}
		what := ""
		// sticky fault on another file right before this step
		if c.Pct("fault", 12) {
			j := first + c.Choose("fault-file", n-first)
			q := c12Paths[j]
			isM := q == before.Root
			for _, m := range before.Members {
				if m == q {
					isM = true
				}
			}
			if !isM {
				// A deleted file stays deleted for the rest of the run: re-creating
				// it would be a new directory entry, and whether an already indexed
				// glob include picks that up is a question about re-expanding globs
				// on file creation, which the update model of C12 (content
				// replacements) does not cover (DESIGN 11).
				if c.Bool("fault-kind") {
					gone[q] = true
					disk.Remove(q)
					ctx.T("fault enoent (sticky): %s removed from disk", q)
					ctx.Stats.Inc("fault:enoent-sticky")
				} else {
					disk.BadRead[q] = true
					ctx.T("fault eio (sticky): %s unreadable", q)
					ctx.Stats.Inc("fault:eio-sticky")
				}
			}
		}
		if saved || !member {
			disk.WriteFile(p, []byte(text))
			delete(disk.BadRead, p)
			delete(unsaved, p)
			what = "saved edit of " + p
		} else {
			unsaved[p] = text
			what = "unsaved edit of " + p
		}
		ctx.T("step %d: %s; UpdateFile(%s):\n%s", step, what, p, indent(text))
		if c.Pct("concurrent-readers", 30) {
			// the update runs as a task, interleaved at every lock and disk call
			// with tasks that read the aggregated view (what background analyses
			// and requests do): a reader must never leave a stale derived cache behind
			twoUpdates := false
			sched := simrt.NewSched(c, ctx.Log)
			sched.MapOrder = simrt.DirectMapOrder
			simrt.Activate(sched)
			nr := 1 + c.Choose("readers", 2)
			// what each reader saw: copied at read time (the maps may be shared caches)
			type seen struct{ acct, com map[string]bool }
			sights := make([]seen, nr)
			cp := func(m map[string]bool) map[string]bool {
				out := map[string]bool{}
				for k, v := range m {
					out[k] = v
				}
				return out
			}
			for r := 0; r < nr; r++ {
				r := r
				simrt.Go("c12:reader", func() {
					sights[r].acct = cp(sut.GetDeclaredAccounts())
					sights[r].com = cp(sut.GetDeclaredCommodities())
					sut.GetCommodityFormats()
					sut.IndexSnapshot()
				})
			}
			judgeReaders := func() {
				// old or new, never a mixture: a reader that overlapped ONE update saw
				// the declared sets of the state before or after it
				if crashed != "" || len(ctx.Violations) > 0 || twoUpdates {
					return
				}
				after := viewOf(sut)
				for r, sg := range sights {
					for _, pair := range []struct {
						what        string
						got, b4, af map[string]bool
					}{{"declared accounts", sg.acct, before.DeclAcct, after.DeclAcct}, {"declared commodities", sg.com, before.DeclCom, after.DeclCom}} {
						if !reflect.DeepEqual(emptyNil(pair.got), emptyNil(pair.b4)) && !reflect.DeepEqual(emptyNil(pair.got), emptyNil(pair.af)) {
							ctx.Fail(&Violation{Property: "C12", Oracle: "fresh-workspace", Class: "reader-saw-a-mixture", Msg: fmt.Sprintf("step %d (%s): reader %d, running concurrently with the update, got %s %v - neither the set before the update %v nor after it %v", step, what, r, pair.what, keysOf(pair.got), keysOf(pair.b4), keysOf(pair.af))})
							return
						}
					}
				}
			}
			// sometimes an intermediate keystroke precedes the text of this step, so
			// that a reader can miss the cache between two updates
			pre := ""
			if c.Pct("two-updates", 60) {
				twoUpdates = true
				// same include lines as the final text (membership changes once, so
				// the bookkeeping of unsaved member texts stays exact), other content
				pre = text + fmt.Sprintf("account zz:typed%d\ncommodity 1.000,00 ZZ%d\n\n2024-05-05 keystroke%d  ; typed:%d\n    zz:typed%d  1 ZZ%d\n    assets:cash\n", step, step, step, step, step, step)
				ctx.T("  (preceded by an intermediate UpdateFile(%s):\n%s)", p, indent(pre))
			}
			simrt.Go("c12:update", func() {
				if pre != "" {
					sut.UpdateFile(p, pre)
				}
				sut.UpdateFile(p, text)
			})
			runTasks(c, sched, 20000)
			simrt.Activate(nil)
			stuck := ""
			for _, t := range sched.Tasks {
				if t.State != simrt.StDone {
					stuck = t.String() + "@" + t.Site
				}
			}
			ctx.Stats.Inc("probe:update-interleaved-with-readers")
			ctx.T("  (update interleaved with %d reader task(s))", nr)
			if stuck != "" {
				ctx.Fail(&Violation{Property: "C12", Oracle: "fresh-workspace", Class: "stuck", Msg: fmt.Sprintf("step %d (%s): %s never finished (deadlock between an update and readers of the view)", step, what, stuck)})
				ctx.NonTrivial = true
				return
			}
			if len(sched.Panics) > 0 {
				crashed = sched.Panics[0].Value
			}
			judgeReaders()
			if len(ctx.Violations) > 0 {
				ctx.NonTrivial = true
				return
			}
		} else {
			guard(func() { sut.UpdateFile(p, text) })
		}
		sig = append(sig, fmt.Sprintf("%d%v%v", i, saved, member))
		after := viewOf(sut)
		if !reflect.DeepEqual(before.Members, after.Members) {
			nontrivial = true
			ctx.Stats.Inc("probe:member-set-changed")
			if len(after.Members) < len(before.Members) {
				ctx.Stats.Inc("probe:file-became-unreachable")
			} else {
				ctx.Stats.Inc("probe:file-became-reachable")
			}
		}
		if len(after.Members) > 0 {
			nontrivial = true
		}
		if !check(step, what) {
			ctx.NonTrivial = true
			ctx.SigExtra = strings.Join(sig, ",")
			return
		}
	}
	ctx.NonTrivial = nontrivial
	ctx.SigExtra = fmt.Sprintf("%d/%v#%s#%d", n, hasMain, strings.Join(sig, ","), salt)
}

func indent(s string) string {
	return "      | " + strings.ReplaceAll(strings.TrimRight(s, "\n"), "\n", "\n      | ")
}

func must[T any](v T, _ bool) T { return v }

func trunc(s string, n int) string {
	if len(s) > n {
		return s[:n] + "…"
	}
	return s
}
