//go:build verifsim

package engine

import (
	"strings"
	"unicode/utf16"

	"github.com/juev/hledger-lsp/internal/verifsim/simrt"
)

// ---- reference client buffer ---------------------------------------------------
//
// What a conforming LSP client holds: the text as UTF-16 code units.  Written
// from the LSP specification, independently of internal/lsputil:
//   - lines end with LF or CR LF (a lone CR is never generated);
//   - character counts UTF-16 code units inside the line, line terminator excluded;
//   - a character beyond the line's length clamps to that length;
//   - a line beyond the last line clamps to the end of the document;
//   - a change without range replaces everything; changes apply in order.

type Buf []uint16

func BufOf(s string) Buf     { return utf16.Encode([]rune(s)) }
func (b Buf) String() string { return string(utf16.Decode(b)) }

// offset converts an LSP position to an index into b.
func (b Buf) offset(line, ch int) int {
	i := 0
	for l := 0; l < line; l++ {
		for i < len(b) && b[i] != '\n' {
			i++
		}
		if i >= len(b) {
			return len(b) // line beyond the last line
		}
		i++ // past LF
	}
	// i is the start of the requested line; its length excludes CR LF / LF
	end := i
	for end < len(b) && b[end] != '\n' {
		end++
	}
	if end > i && end < len(b) && b[end-1] == '\r' {
		end--
	} else if end > i && end == len(b) && b[end-1] == '\r' {
		// trailing CR at end of document without LF cannot occur (never generated)
	}
	if ch > end-i {
		ch = end - i
	}
	return i + ch
}

// Apply applies one content change.
func (b Buf) Apply(hasRange bool, l1, c1, l2, c2 int, text string) Buf {
	if !hasRange {
		return BufOf(text)
	}
	s, e := b.offset(l1, c1), b.offset(l2, c2)
	if s > e {
		s, e = e, s
	}
	out := make(Buf, 0, len(b)-(e-s)+len(text))
	out = append(out, b[:s]...)
	out = append(out, BufOf(text)...)
	out = append(out, b[e:]...)
	return out
}

// Lines returns (line count, length of each line in UTF-16 units, terminator excluded).
func (b Buf) LineLens() []int {
	var out []int
	n := 0
	for i := 0; i < len(b); i++ {
		if b[i] == '\n' {
			if n > 0 && b[i-1] == '\r' {
				n--
			}
			out = append(out, n)
			n = 0
		} else {
			n++
		}
	}
	out = append(out, n)
	return out
}

// isPairBoundaryOK reports whether position (line, ch) does not split a
// surrogate pair (a conforming client never sends such a position).
func (b Buf) splitsPair(line, ch int) bool {
	o := b.offset(line, ch)
	if o <= 0 || o >= len(b) {
		return false
	}
	return utf16.IsSurrogate(rune(b[o-1])) && b[o-1] < 0xDC00 && utf16.IsSurrogate(rune(b[o])) && b[o] >= 0xDC00
}

// ---- text profile ------------------------------------------------------------------

var textAtoms = []string{
	"a", "b", "xyz", " ", "  ", "\t", ";", ":", "|", "@", "=", "(", ")", "0", "12", "3.5", "-", "$", "€", "é", "Ж", "中", "ñ", "😀", "𝄞", "👍🏽",
	"2024-01-15", "expenses:food", "assets:bank", "USD", "include ", "account ", "commodity ", "payee", "*", "!",
}

var journalLines = []string{
	"2024-01-15 * grocer",
	"    expenses:food  10 USD",
	"    assets:bank",
	"2024-02-01 café ☕ | note",
	"    expenses:café  3,50 €",
	"    assets:cash  -3,50 €",
	"account expenses:food",
	"commodity 1,000.00 USD",
	"; a comment with 😀 emoji",
	"include other.journal",
	"P 2024-01-01 EUR 1.1 USD",
	"",
}

// GenText draws a text-profile document: lines of atoms or journal lines, one
// end-of-line style, with or without final newline, possibly empty.
func GenText(c *simrt.Chooser) (text string, eol string) {
	eol = "\n"
	if c.Pct("crlf", 35) {
		eol = "\r\n"
	}
	n := c.Weighted("nlines", []int{1, 2, 3, 3, 2, 2, 1, 1})
	var lines []string
	for i := 0; i < n; i++ {
		lines = append(lines, GenLineText(c))
	}
	text = strings.Join(lines, eol)
	if n > 0 && c.Pct("final-eol", 60) {
		text += eol
	}
	return text, eol
}

func GenLineText(c *simrt.Chooser) string {
	if c.Pct("journal-line", 40) {
		return pick(c, "jline", journalLines)
	}
	k := c.Choose("natoms", 6)
	var b strings.Builder
	for i := 0; i < k; i++ {
		b.WriteString(pick(c, "atom", textAtoms))
	}
	return b.String()
}

// GenInsertText draws text for an edit: atoms and line breaks in the document's style.
func GenInsertText(c *simrt.Chooser, eol string) string {
	k := c.Choose("ins-atoms", 5)
	var b strings.Builder
	for i := 0; i < k; i++ {
		if c.Pct("ins-eol", 25) {
			b.WriteString(eol)
		} else if c.Pct("ins-jline", 15) {
			b.WriteString(pick(c, "jline", journalLines))
		} else {
			b.WriteString(pick(c, "atom", textAtoms))
		}
	}
	return b.String()
}

type Edit struct {
	HasRange       bool
	L1, C1, L2, C2 int
	Text           string
	Shape          string
}

// GenEdit draws one content change against buffer b (DESIGN 4.4).
func GenEdit(c *simrt.Chooser, b Buf, eol string) Edit {
	lens := b.LineLens()
	nl := len(lens)
	line := func() int { return c.Choose("line", nl) }
	col := func(l int) int { return c.Choose("col", lens[l]+1) }
	fix := func(l, ch int) int {
		// never split a surrogate pair: move one unit left
		if l < nl && ch <= lens[l] && b.splitsPair(l, ch) {
			return ch - 1
		}
		return ch
	}
	e := Edit{HasRange: true, Text: GenInsertText(c, eol)}
	switch c.Weighted("edit-shape", []int{20, 50, 40, 30, 1, 20, 20, 20, 20}) {
	case 0:
		e.HasRange = false
		e.Shape = "range-less full replacement"
		if c.Pct("full-gen", 70) {
			e.Text, _ = GenText(c)
			if eol == "\r\n" {
				e.Text = strings.ReplaceAll(strings.ReplaceAll(e.Text, "\r\n", "\n"), "\n", "\r\n")
			} else {
				e.Text = strings.ReplaceAll(e.Text, "\r\n", "\n")
			}
		}
	case 1:
		l := line()
		ch := fix(l, col(l))
		e.L1, e.C1, e.L2, e.C2 = l, ch, l, ch
		e.Shape = "insertion inside a line"
	case 2:
		l := line()
		a, z := fix(l, col(l)), fix(l, col(l))
		if a > z {
			a, z = z, a
		}
		e.L1, e.C1, e.L2, e.C2 = l, a, l, z
		e.Shape = "replace/delete inside a line"
	case 3:
		l1, l2 := line(), line()
		if l1 > l2 {
			l1, l2 = l2, l1
		}
		e.L1, e.C1, e.L2, e.C2 = l1, fix(l1, col(l1)), l2, fix(l2, col(l2))
		if l1 == l2 && e.C1 > e.C2 {
			e.C1, e.C2 = e.C2, e.C1
		}
		e.Shape = "across line breaks"
	case 4:
		e.L1, e.C1, e.L2, e.C2 = 0, 0, 0, 0
		e.Shape = "insertion with empty range at 0:0"
	case 5:
		l := line()
		ch := fix(l, col(l))
		e.L1, e.C1, e.L2, e.C2 = l, ch, l, lens[l]+1+c.Choose("past-eol", 40)
		e.Shape = "end past end of line"
	case 6:
		l := line()
		ch := fix(l, col(l))
		e.L1, e.C1, e.L2, e.C2 = l, ch, nl+c.Choose("past-eod", 5), c.Choose("past-col", 10)
		e.Shape = "end past end of document"
	case 7:
		// delete a whole line break: from end of line l to start of l+1
		if nl >= 2 {
			l := c.Choose("line", nl-1)
			e.L1, e.C1, e.L2, e.C2 = l, lens[l], l+1, 0
			e.Text = ""
			e.Shape = "delete a line break"
		} else {
			e.L1, e.C1, e.L2, e.C2 = 0, lens[0], 0, lens[0]
			e.Text = eol
			e.Shape = "insert a line break at end of line"
		}
	case 8:
		l := line()
		e.L1, e.C1, e.L2, e.C2 = l, lens[l]+1+c.Choose("past-eol", 40), l, lens[l]+50
		e.Shape = "start and end past end of line"
	}
	return e
}

func (e Edit) JSON() J {
	if !e.HasRange {
		return J{"text": e.Text}
	}
	return J{"range": rng(e.L1, e.C1, e.L2, e.C2), "text": e.Text}
}
