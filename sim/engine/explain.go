package engine

// explains reports whether the open known finding k is the defect that
// produced violation v.  A finding matches on property, oracle and class and,
// when it names one, on an explain predicate over the witness, so that a
// different violation of the same property is still reported.
func explains(k KnownFinding, v *Violation) bool {
	if k.Oracle != "" && k.Oracle != v.Oracle {
		return false
	}
	if k.Class != "" && k.Class != v.Class {
		return false
	}
	if k.Explain == "" {
		return k.Oracle != "" && k.Class != ""
	}
	p, ok := explainPredicates[k.Explain]
	if !ok {
		return false
	}
	return p(v)
}

var explainPredicates = map[string]func(v *Violation) bool{}
