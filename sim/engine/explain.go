package engine

// explains reports whether the open known finding k is the defect that
// produced violation v.  A finding matches on property, oracle and class and,
// when it names one, on an explain predicate over the witness, so that a
// different violation of the same property is still reported.
func explains(k KnownFinding, v *Violation) bool {
	if k.Oracle != "" && k.Oracle != v.Oracle {
		return false
	}
	if k.Class != "" && k.Class != v.Class {
		return false
	}
	if k.Explain == "" {
		return k.Oracle != "" && k.Class != ""
	}
	p, ok := explainPredicates[k.Explain]
	if !ok {
		return false
	}
	return p(v)
}

var explainPredicates = map[string]func(v *Violation) bool{
	// The decoded didChange cannot tell "no range" from "range 0:0-0:0"
	// (protocol.TextDocumentContentChangeEvent.Range is not a pointer) and the
	// server takes the latter for a whole-document replacement.  The mismatch is
	// this defect iff the notification contained a change with an explicit range
	// 0:0-0:0 and the server's text is exactly what the reference buffer gives
	// when such changes replace the whole text.
	"c01-zero-range-is-full-replacement": func(v *Violation) bool {
		before, ok1 := v.Witness["before"].(string)
		server, ok2 := v.Witness["server"].(string)
		edits, ok3 := v.Witness["edits"].([]Edit)
		if !ok1 || !ok2 || !ok3 {
			return false
		}
		b := BufOf(before)
		zero := false
		for _, e := range edits {
			if e.HasRange && e.L1 == 0 && e.C1 == 0 && e.L2 == 0 && e.C2 == 0 {
				zero = true
				b = BufOf(e.Text)
				continue
			}
			b = b.Apply(e.HasRange, e.L1, e.C1, e.L2, e.C2, e.Text)
		}
		return zero && b.String() == server
	},
}
