//go:build verifsim

package engine

import (
	"encoding/json"
	"fmt"
	"strings"

	"github.com/juev/hledger-lsp/internal/verifsim/simrt"
)

// C17 (history-dependent part): deltas reconstruct the full result, range is
// the restriction of full, result ids are per document, streams are well-formed.
type c17 struct{}

func init() { Register(c17{}) }

func (c17) Name() string { return "c17" }
func (c17) Rule() string {
	return "full-server simulation: 1..3 open documents (journal lines and arbitrary text, ASCII/BMP/non-BMP, LF/CRLF) sharing one server (the semantic-token cache is process-global), histories of 6..40 operations interleaving edits (all shapes of C01), didClose / re-open, semanticTokens/full, /range (random line ranges) and /full/delta with previousResultId drawn from {the id of the array the client holds, an older id of the same URI, the current id of ANOTHER URI, garbage, empty}. Client-side model: per URI the token array a client would hold and the id it came with. Oracles: (1) after every full/delta answer the client's array equals the data of a full request issued right afterwards; (2) a range answer equals the full answer decoded to absolute positions, restricted to the requested lines, re-encoded; (3) a delta (as opposed to a full result) is only returned against the id the server issued last for that URI, never against another document's id or a stale one, and ids are not reused within a URI; (4) every stream is well-formed: length multiple of 5, positions non-decreasing, no overlap, each token inside its line of the client's text (UTF-16), type index inside the advertised legend. Non-trivial: >= 1 delta answered with edits and >= 1 request with a stale/foreign id. Distinct: hash of (operation kinds, id kinds, schedule signature)."
}
func (c17) Enumerated(string) int            { return 0 }
func (c17) Components() ([]string, []string) { return serverComponents() }

type tokAbs struct{ line, col, length, typ, mod int }

func decodeTokens(data []uint32) ([]tokAbs, string) {
	if len(data)%5 != 0 {
		return nil, fmt.Sprintf("length %d is not a multiple of 5", len(data))
	}
	var out []tokAbs
	line, col := 0, 0
	for i := 0; i < len(data); i += 5 {
		dl, dc := int(data[i]), int(data[i+1])
		if data[i] > 1<<30 || data[i+1] > 1<<30 || data[i+2] > 1<<30 {
			return nil, fmt.Sprintf("token %d has a wrapped-around field (%d,%d,%d)", i/5, data[i], data[i+1], data[i+2])
		}
		if dl > 0 {
			line += dl
			col = dc
		} else {
			col += dc
		}
		out = append(out, tokAbs{line, col, int(data[i+2]), int(data[i+3]), int(data[i+4])})
	}
	return out, ""
}

func encodeAbs(toks []tokAbs) []uint32 {
	out := []uint32{}
	pl, pc := 0, 0
	for _, t := range toks {
		dl := t.line - pl
		dc := t.col
		if dl == 0 {
			dc = t.col - pc
		}
		out = append(out, uint32(dl), uint32(dc), uint32(t.length), uint32(t.typ), uint32(t.mod))
		pl, pc = t.line, t.col
	}
	return out
}

// wellFormed returns (class, message) of the first defect of a decoded stream;
// class "crlf-artifact" means the defect sits exactly on the CR of a CRLF line
// end (open finding C17-crlf-cr-tokenised-as-text), "stream" anything else.
func wellFormed(toks []tokAbs, buf Buf, legend int) (string, string) {
	lens := buf.LineLens()
	for i, t := range toks {
		if t.line >= len(lens) {
			return "undecodable", fmt.Sprintf("token %d is on line %d but the text has %d lines", i, t.line, len(lens))
		}
		cr := crAt(buf, t.line)
		if t.col+t.length > lens[t.line] {
			if cr == 1 && t.col+t.length == lens[t.line]+1 {
				return "crlf-artifact", fmt.Sprintf("token %d (line %d, col %d, length %d) includes the CR of the line end (line has %d UTF-16 units)", i, t.line, t.col, t.length, lens[t.line])
			}
			return "stream", fmt.Sprintf("token %d (line %d, col %d, length %d) leaves its line of %d UTF-16 units", i, t.line, t.col, t.length, lens[t.line])
		}
		if legend > 0 && (t.typ < 0 || t.typ >= legend) {
			return "undecodable", fmt.Sprintf("token %d has type index %d outside the legend of %d types", i, t.typ, legend)
		}
		if i > 0 {
			p := toks[i-1]
			if t.line == p.line && t.col < p.col+p.length {
				if cr == 1 && t.col >= lens[t.line] {
					return "crlf-artifact", fmt.Sprintf("token %d (line %d, col %d) overlaps token %d (col %d, length %d) on the CR of the line end", i, t.line, t.col, i-1, p.col, p.length)
				}
				return "stream", fmt.Sprintf("token %d (line %d, col %d) overlaps token %d (col %d, length %d)", i, t.line, t.col, i-1, p.col, p.length)
			}
		}
	}
	return "", ""
}

func sameData(a, b []uint32) bool {
	if len(a) != len(b) {
		return false
	}
	for i := range a {
		if a[i] != b[i] {
			return false
		}
	}
	return true
}

type stDoc struct {
	No      int
	URI     string
	Open    bool
	Buf     Buf
	EOL     string
	Ver     int
	Arr     []uint32 // what the client holds
	HasArr  bool
	ID      string   // id the array came with ("" = none)
	IDs     []string // ids issued for this URI so far
	LastSrv string   // id the server issued last for this URI ("" after close)
	ArrText string   // text the held array was verified against by a full request
	ArrOK   bool
	// range answers not judged yet: no full result for their text was at hand and
	// none was asked for (a full request would refresh the server's cache between
	// an edit, the range request and the next delta)
	Pending     []pendingRange
	PendingText string
}

type pendingRange struct {
	l1, l2 int
	data   []uint32
}

func (c17) Run(ctx *RunCtx) {
	c := ctx.C
	env := NewEnv()
	env.Disk.Env["HOME"] = "/sim"
	policy := c.Choose("policy", numPolicies)
	d := NewDriver(ctx, c, env, policy, "sut", ctx.Log)
	fail := func(oracle, class, msg string) {
		ctx.T("VERDICT %s/%s: %s", oracle, class, msg)
		ctx.Fail(&Violation{Property: "C17", Oracle: oracle, Class: class, Msg: msg})
	}
	defer d.Teardown()
	root := ""
	if c.Pct("workspace", 30) {
		root = "/sim/ws"
	}
	r := d.Call("initialize", InitParams(root, false, false, nil))
	if r == nil {
		fail("liveness", "no-initialize-response", "initialize not answered")
		return
	}
	var ir struct {
		Capabilities struct {
			SemanticTokensProvider struct {
				Legend struct {
					TokenTypes []string `json:"tokenTypes"`
				} `json:"legend"`
			} `json:"semanticTokensProvider"`
		} `json:"capabilities"`
	}
	json.Unmarshal(r.Result, &ir)
	legend := len(ir.Capabilities.SemanticTokensProvider.Legend.TokenTypes)
	d.Notify("initialized", J{})
	docs := []*stDoc{{No: 1, URI: "file:///sim/ws/one.journal"}, {No: 2, URI: "file:///sim/ws/two.journal"}, {No: 3, URI: "file:///sim/ws/three.journal"}}
	ndocs := c.Range("ndocs", 1, 3)
	docs = docs[:ndocs]
	allIDs := map[string]int{} // id -> doc number that received it
	var kinds []string
	deltas, staleAsked := 0, 0
	type answer struct {
		isDelta bool
		id      string
		data    []uint32
		edits   []struct {
			Start       int      `json:"start"`
			DeleteCount int      `json:"deleteCount"`
			Data        []uint32 `json:"data"`
		}
	}
	parse := func(raw json.RawMessage) (answer, string) {
		var a answer
		var probe map[string]json.RawMessage
		if err := json.Unmarshal(raw, &probe); err != nil {
			return a, "answer is not an object: " + trunc(string(raw), 80)
		}
		if rid, ok := probe["resultId"]; ok {
			json.Unmarshal(rid, &a.id)
		}
		if e, ok := probe["edits"]; ok {
			a.isDelta = true
			if err := json.Unmarshal(e, &a.edits); err != nil {
				return a, "edits do not decode: " + err.Error()
			}
			return a, ""
		}
		if dd, ok := probe["data"]; ok {
			if err := json.Unmarshal(dd, &a.data); err != nil {
				return a, "data does not decode: " + err.Error()
			}
		}
		return a, ""
	}
	noteID := func(doc *stDoc, id string) bool {
		if id == "" {
			return true
		}
		for _, old := range doc.IDs {
			if old == id {
				fail("ids", "id-reused", fmt.Sprintf("result id %q was issued twice for d%d", id, doc.No))
				return false
			}
		}
		doc.IDs = append(doc.IDs, id)
		allIDs[id] = doc.No
		doc.LastSrv = id
		return true
	}
	askFull := func(doc *stDoc, why string) ([]uint32, bool) {
		r := d.Call("textDocument/semanticTokens/full", J{"textDocument": docID(doc.URI)})
		if r == nil {
			fail("liveness", "no-response", "semanticTokens/full not answered")
			return nil, false
		}
		a, bad := parse(r.Result)
		if bad != "" || a.isDelta {
			fail("well-formed", "full-answer-shape", fmt.Sprintf("semanticTokens/full on d%d: %s %s", doc.No, bad, trunc(string(r.Result), 100)))
			return nil, false
		}
		toks, bad := decodeTokens(a.data)
		cls := "undecodable"
		if bad == "" {
			cls, bad = wellFormed(toks, doc.Buf, legend)
		}
		if bad != "" && cls == "undecodable" {
			msg := fmt.Sprintf("semanticTokens/full on d%d (%s): %s; text=%q", doc.No, why, bad, trunc(doc.Buf.String(), 200))
			ctx.T("VERDICT well-formed/%s: %s", cls, msg)
			if !ctx.Fail(&Violation{Property: "C17", Oracle: "well-formed", Class: cls, Msg: msg}) {
				return nil, false
			}
		} else if bad != "" {
			// Lexeme extents (a token swallowing the CR of a CRLF line end, two
			// tokens on one column of unparsable text) are the pure, unclaimed part
			// of C17: counted as a by-product, never a verdict (DESIGN 5.17/11).
			ctx.Stats.Inc("unclaimed:lexeme-extent-anomaly:" + cls)
		}
		if !noteID(doc, a.id) {
			return nil, false
		}
		doc.Arr, doc.HasArr, doc.ID = a.data, true, a.id
		if a.data == nil {
			doc.Arr = []uint32{}
		}
		doc.ArrText, doc.ArrOK = doc.Buf.String(), true
		if len(doc.Pending) > 0 && doc.PendingText == doc.ArrText {
			ft, _ := decodeTokens(doc.Arr)
			for _, a := range doc.Pending {
				var want []tokAbs
				for _, t := range ft {
					if t.line >= a.l1 && t.line <= a.l2 {
						want = append(want, t)
					}
				}
				if !sameData(a.data, encodeAbs(want)) {
					fail("range", "range-differs-from-restricted-full", fmt.Sprintf("semanticTokens/range lines %d..%d of d%d (judged later, against the next full result for the same text) returned %v; the full result restricted to these lines is %v", a.l1, a.l2, doc.No, a.data, encodeAbs(want)))
					return nil, false
				}
			}
			ctx.Stats.Inc("probe:range-judged-later")
		}
		doc.Pending = nil
		return doc.Arr, true
	}
	nops := c.Range("nops", 6, 40)
	for op := 0; op < nops && len(ctx.Violations) == 0 && !d.Livelock; op++ {
		doc := docs[c.Choose("doc", len(docs))]
		if !doc.Open {
			text, eol := GenText(c)
			doc.Buf, doc.EOL, doc.Open = BufOf(text), eol, true
			doc.Ver++
			doc.HasArr, doc.ID, doc.Arr, doc.ArrOK = false, "", nil, false
			d.Notify("textDocument/didOpen", J{"textDocument": J{"uri": doc.URI, "languageId": "hledger", "version": doc.Ver, "text": text}})
			ctx.T("op%d didOpen d%d eol=%q text=%q", op, doc.No, eol, trunc(text, 100))
			kinds = append(kinds, "open")
			d.PumpN(c.Choose("steps", 8))
			continue
		}
		switch c.Weighted("op", []int{8, 2, 5, 4, 9}) {
		case 0: // edit
			doc.Ver++
			n := 1 + c.Weighted("nchanges", []int{6, 2, 1})
			var changes []J
			var desc []string
			for i := 0; i < n; i++ {
				e := GenEdit(c, doc.Buf, doc.EOL)
				changes = append(changes, e.JSON())
				doc.Buf = doc.Buf.Apply(e.HasRange, e.L1, e.C1, e.L2, e.C2, e.Text)
				desc = append(desc, fmt.Sprintf("%s [%d:%d-%d:%d] %q", e.Shape, e.L1, e.C1, e.L2, e.C2, trunc(e.Text, 30)))
			}
			d.Notify("textDocument/didChange", J{"textDocument": J{"uri": doc.URI, "version": doc.Ver}, "contentChanges": changes})
			ctx.T("op%d didChange d%d: %s", op, doc.No, strings.Join(desc, " ; "))
			kinds = append(kinds, "edit")
			d.PumpN(c.Choose("steps", 8))
		case 1: // close
			d.Notify("textDocument/didClose", J{"textDocument": docID(doc.URI)})
			doc.Open = false
			doc.LastSrv = ""
			ctx.T("op%d didClose d%d", op, doc.No)
			kinds = append(kinds, "close")
		case 2: // full
			if _, ok := askFull(doc, "request"); !ok {
				return
			}
			ctx.T("op%d full d%d -> id %q, %d tokens", op, doc.No, doc.ID, len(doc.Arr)/5)
			kinds = append(kinds, "full")
		case 3: // range: 1..3 requests in a row, judged against ONE full result
			lens := doc.Buf.LineLens()
			type rangeAns struct {
				l1, l2 int
				data   []uint32
			}
			var answers []rangeAns
			nr := 1 + c.Weighted("ranges-in-a-row", []int{4, 3, 2})
			for k := 0; k < nr; k++ {
				l1 := c.Choose("range-l1", len(lens))
				l2 := l1 + c.Choose("range-span", len(lens)-l1)
				r := d.Call("textDocument/semanticTokens/range", J{"textDocument": docID(doc.URI), "range": rng(l1, 0, l2, lens[l2])})
				if r == nil {
					fail("liveness", "no-response", "semanticTokens/range not answered")
					return
				}
				a, bad := parse(r.Result)
				if bad != "" || a.isDelta {
					fail("well-formed", "range-answer-shape", bad)
					return
				}
				answers = append(answers, rangeAns{l1, l2, a.data})
			}
			// the reference: the array the client already holds when it was verified
			// against this very text (so that no full request refreshes the server's
			// cache between range requests and later deltas), else a full request
			var full []uint32
			if doc.ArrOK && doc.ArrText == doc.Buf.String() && c.Pct("reuse-held-array", 70) {
				full = doc.Arr
				ctx.Stats.Inc("probe:range-judged-without-intermediate-full")
			} else if c.Pct("judge-range-later", 50) {
				// no full request now: the answers wait for the next full result
				if doc.PendingText != doc.Buf.String() {
					doc.Pending = nil // answers for an earlier text can no longer be judged
				}
				for _, a := range answers {
					doc.Pending = append(doc.Pending, pendingRange{a.l1, a.l2, a.data})
				}
				doc.PendingText = doc.Buf.String()
				kinds = append(kinds, "range")
				ctx.T("op%d %d range request(s) on d%d, judged later", op, len(answers), doc.No)
				continue
			} else {
				var ok bool
				full, ok = askFull(doc, "reference for range")
				if !ok {
					return
				}
			}
			ft, _ := decodeTokens(full)
			for k, a := range answers {
				var want []tokAbs
				for _, t := range ft {
					if t.line >= a.l1 && t.line <= a.l2 {
						want = append(want, t)
					}
				}
				if !sameData(a.data, encodeAbs(want)) {
					fail("range", "range-differs-from-restricted-full", fmt.Sprintf("semanticTokens/range #%d of %d in a row, lines %d..%d of d%d returned %v; the full result restricted to these lines is %v; text=%q", k+1, len(answers), a.l1, a.l2, doc.No, a.data, encodeAbs(want), trunc(doc.Buf.String(), 200)))
					return
				}
				ctx.T("op%d range d%d lines %d..%d -> %d tokens", op, doc.No, a.l1, a.l2, len(a.data)/5)
			}
			kinds = append(kinds, "range")
		case 4: // delta
			idKind := c.Weighted("prev-id", []int{8, 3, 3, 2, 1})
			prev := ""
			kindName := ""
			switch idKind {
			case 0:
				prev, kindName = doc.ID, "current"
			case 1:
				// any id issued earlier for this URI other than the one the client's
				// array came with (after close + re-open that includes the last id
				// issued before the close)
				kindName = "stale"
				var cand []string
				for _, id := range doc.IDs {
					if id != doc.ID {
						cand = append(cand, id)
					}
				}
				if len(cand) > 0 {
					prev = cand[len(cand)-1-c.Choose("stale-id", len(cand))]
				} else {
					prev, kindName = doc.ID, "current"
				}
			case 2:
				kindName = "foreign"
				prev = doc.ID
				for _, od := range docs {
					if od != doc && od.LastSrv != "" {
						prev = od.LastSrv
					}
				}
				if prev == doc.ID {
					kindName = "current"
				}
			case 3:
				prev, kindName = "garbage-"+fmt.Sprint(op), "garbage"
			case 4:
				prev, kindName = "", "empty"
			}
			if kindName != "current" {
				staleAsked++
			}
			r := d.Call("textDocument/semanticTokens/full/delta", J{"textDocument": docID(doc.URI), "previousResultId": prev})
			if r == nil {
				fail("liveness", "no-response", "semanticTokens/full/delta not answered")
				return
			}
			a, bad := parse(r.Result)
			if bad != "" {
				fail("well-formed", "delta-answer-shape", bad)
				return
			}
			if a.isDelta {
				// only legal against the array the client really holds: the id the
				// server issued last for this URI, which is also what the client has
				if prev == "" || prev != doc.LastSrv || allIDs[prev] != doc.No {
					fail("ids", "delta-against-"+kindName+"-id", fmt.Sprintf("full/delta on d%d with %s previousResultId %q (issued for d%d; last id issued for this URI: %q) was answered with a delta instead of a full result", doc.No, kindName, prev, allIDs[prev], doc.LastSrv))
					return
				}
				if !doc.HasArr || prev != doc.ID {
					fail("ids", "delta-without-base", fmt.Sprintf("full/delta on d%d answered with a delta against %q but the client's array came with %q", doc.No, prev, doc.ID))
					return
				}
				arr := append([]uint32(nil), doc.Arr...)
				for _, e := range a.edits {
					if e.Start < 0 || e.Start > len(arr) || e.Start+e.DeleteCount > len(arr) {
						fail("delta", "edit-outside-array", fmt.Sprintf("delta edit {start %d, deleteCount %d} does not fit the client's array of %d", e.Start, e.DeleteCount, len(arr)))
						return
					}
					na := append([]uint32(nil), arr[:e.Start]...)
					na = append(na, e.Data...)
					na = append(na, arr[e.Start+e.DeleteCount:]...)
					arr = na
				}
				if !noteID(doc, a.id) {
					return
				}
				doc.Arr, doc.ID = arr, a.id
				if len(a.edits) > 0 {
					deltas++
				}
			} else {
				if !noteID(doc, a.id) {
					return
				}
				doc.Arr, doc.HasArr, doc.ID = a.data, true, a.id
				if doc.Arr == nil {
					doc.Arr = []uint32{}
				}
			}
			mine := append([]uint32(nil), doc.Arr...)
			ctx.T("op%d delta d%d prev=%s(%q) -> %s id %q, client array now %d tokens", op, doc.No, kindName, prev, map[bool]string{true: "delta", false: "full"}[a.isDelta], a.id, len(mine)/5)
			kinds = append(kinds, "delta-"+kindName)
			full, ok := askFull(doc, "reference for delta")
			if !ok {
				return
			}
			if !sameData(mine, full) {
				fail("delta", "reconstruction-differs-from-full", fmt.Sprintf("after full/delta (%s id) on d%d the array a client rebuilds (%d values) differs from the full result for the current text (%d values): rebuilt=%v full=%v text=%q", kindName, doc.No, len(mine), len(full), trunc(fmt.Sprint(mine), 200), trunc(fmt.Sprint(full), 200), trunc(doc.Buf.String(), 200)))
				return
			}
		}
		if len(d.S.Panics)+len(d.Sess.Panics) > 0 {
			ps := append(d.S.Panics, d.Sess.Panics...)
			fail("liveness", "crash", fmt.Sprintf("panic in %s: %s", ps[0].Task, ps[0].Value))
			return
		}
	}
	d.Quiesce()
	ctx.NonTrivial = deltas >= 1 && staleAsked >= 1
	ctx.SigExtra = strings.Join(kinds, ",")
	if deltas > 0 {
		ctx.Stats.Inc("probe:delta-with-edits-answered")
	}
	for _, k := range kinds {
		ctx.Stats.Inc("op:" + k)
	}
	_ = simrt.StDone
}

// crAt is 1 if line l of b ends with CR LF.
func crAt(b Buf, l int) int {
	i, line := 0, 0
	for ; i < len(b); i++ {
		if b[i] == '\n' {
			if line == l {
				if i > 0 && b[i-1] == '\r' {
					return 1
				}
				return 0
			}
			line++
		}
	}
	return 0
}
