//go:build verifsim

package engine

import (
	"encoding/json"
	"fmt"
	"sort"
	"strings"
	"time"

	"github.com/juev/hledger-lsp/internal/verifsim/simclock"
	"github.com/juev/hledger-lsp/internal/verifsim/simexec"
	"github.com/juev/hledger-lsp/internal/verifsim/simfs"
	"github.com/juev/hledger-lsp/internal/verifsim/simrt"
	"github.com/juev/hledger-lsp/internal/verifsim/simwire"
)

// Schedule policies (DESIGN 3.2).
const (
	PolRandom       = iota // uniform among runnable tasks at every step
	PolSticky              // keep running the last task with high probability
	PolBgFirst             // background tasks run to completion in spawn order before the client continues (sequential)
	PolHoldBg              // background tasks are held until the client is idle, then released in a chosen order
	PolPCT                 // random priorities with a few change points
	PolStarve              // one chosen background task runs only when nothing else can
	PolBgReverse           // like BgFirst but the youngest task first
	PolStallPublish        // random, but some tasks stall right before they publish (slow client write) until nothing else can run
	numPolicies
)

// Policies used by reference servers only.
const (
	PolDispOnly      = 100 // background tasks never run
	PolBgFirstExcept = 101 // BgFirst, but tasks in Driver.held never run
)

var policyNames = []string{"random", "sticky", "bg-first(sequential)", "hold-bg-then-permute", "pct", "starve-one", "bg-youngest-first", "stall-at-publish"}

// Env is the simulated environment of one server instance.
type Env struct {
	Disk  *simfs.Disk
	Clock *simclock.Clock
	Exec  *simexec.Exec
}

func NewEnv() *Env {
	return &Env{Disk: simfs.NewDisk(), Clock: &simclock.Clock{Nanos: time.Date(2024, 6, 15, 12, 0, 0, 0, time.UTC).UnixNano()}, Exec: &simexec.Exec{}}
}

func (e *Env) Clone() *Env {
	return &Env{Disk: e.Disk.Clone(), Clock: &simclock.Clock{Nanos: e.Clock.Nanos}, Exec: &simexec.Exec{VersionOK: e.Exec.VersionOK}}
}

// Driver runs one simulated server: it owns the scheduler, the session and the
// schedule policy, and offers the client-model primitives the engines use.
type Driver struct {
	Ctx    *RunCtx
	C      *simrt.Chooser
	S      *simrt.Sched
	Sess   *simwire.Session
	Env    *Env
	Policy int
	Name   string

	MapSalt     uint64
	mapCalls    map[string]int
	MapPermuted int

	last       *simrt.Task
	prio       map[int]int
	pctLeft    int
	starve     int
	stall      map[int]int // PolStallPublish: task id -> 1 stalls at its publish point, 2 does not
	StepBudget int

	MaxLive     int
	TimerJumps  int
	Preemptions int
	Deadlock    string
	Livelock    bool
	outSeen     int
	// OnMsg is called for every message received from the server, in order.
	OnMsg func(m *simwire.Msg)
	// AutoConfig answers workspace/configuration requests: nil = never answer.
	quiet   bool
	waiting bool // a client request is waiting for its response
	held    map[int]bool
}

// activate routes sim calls to this driver's scheduler and environment.
func (d *Driver) activate() {
	simrt.Activate(d.S)
	simfs.Active = d.Env.Disk
	simclock.Active = d.Env.Clock
	simexec.Active = d.Env.Exec
	if d.Sess != nil {
		d.Sess.Activate()
	}
}

// NewDriver starts a server on env.  chooser may differ from ctx.C (reference
// servers use a fixed all-zero chooser).
func NewDriver(ctx *RunCtx, c *simrt.Chooser, env *Env, policy int, name string, log *simrt.Log) *Driver {
	d := &Driver{Ctx: ctx, C: c, Env: env, Policy: policy, Name: name, prio: map[int]int{}, mapCalls: map[string]int{}, StepBudget: 20000, starve: -1}
	d.S = simrt.NewSched(c, log)
	d.S.MapOrder = func(site string, n int) []int {
		d.mapCalls[site]++
		if d.MapSalt == 0 {
			return nil
		}
		d.MapPermuted++
		return simrt.PermFromHash(simrt.HashSite(d.MapSalt, site, d.mapCalls[site]), n)
	}
	d.activate()
	d.Sess = simwire.Start(d.S)
	if policy == PolPCT {
		d.pctLeft = 3
	}
	return d
}

func (d *Driver) isBg(t *simrt.Task) bool { return t != d.Sess.Disp }

// pick chooses the next task among the runnable ones according to the policy.
func (d *Driver) pick(run []*simrt.Task, clientIdle bool) *simrt.Task {
	if len(run) == 1 && d.Policy != PolStallPublish {
		return run[0]
	}
	var bg []*simrt.Task
	var disp *simrt.Task
	for _, t := range run {
		if d.isBg(t) {
			bg = append(bg, t)
		} else {
			disp = t
		}
	}
	switch d.Policy {
	case PolBgFirst, PolBgFirstExcept:
		if len(bg) > 0 {
			return bg[0]
		}
		return disp
	case PolBgReverse:
		if len(bg) > 0 {
			return bg[len(bg)-1]
		}
		return disp
	case PolHoldBg:
		if disp != nil {
			return disp
		}
		// client idle: continue the task that is already running, else pick one
		for _, t := range bg {
			if t == d.last {
				return t
			}
		}
		return bg[d.C.Choose("release", len(bg))]
	case PolSticky:
		for _, t := range run {
			if t == d.last && d.C.Choose("stay", 10) < 8 {
				return t
			}
		}
		return run[d.C.Choose("task", len(run))]
	case PolPCT:
		best := run[0]
		for _, t := range run {
			if _, ok := d.prio[t.ID]; !ok {
				d.prio[t.ID] = 1 + d.C.Choose("prio", 1000)
			}
			if d.prio[t.ID] > d.prio[best.ID] {
				best = t
			}
		}
		if d.pctLeft > 0 && d.C.Choose("pct-change", 12) == 0 {
			d.pctLeft--
			d.prio[best.ID] = 0 - d.pctLeft
		}
		return best
	case PolStallPublish:
		if d.stall == nil {
			d.stall = map[int]int{}
		}
		var free []*simrt.Task
		for _, t := range run {
			if r := d.S.Pending(t); r != nil && r.Kind == "client.publish" {
				if d.stall[t.ID] == 0 {
					d.stall[t.ID] = 2 - d.C.Choose("stall-at-publish", 2)
				}
				if d.stall[t.ID] == 1 {
					continue
				}
			}
			free = append(free, t)
		}
		if len(free) == 0 && !clientIdle && !d.waiting && !d.anyBlocked() {
			// the stalled publishes stay stalled while the client has more to send
			return nil
		}
		if len(free) == 0 {
			// only stalled publishes are left: release one, in a chosen order
			t := run[d.C.Choose("release-publish", len(run))]
			d.stall[t.ID] = 2
			return t
		}
		if len(free) == 1 {
			return free[0]
		}
		return free[d.C.Choose("task", len(free))]
	case PolStarve:
		if d.starve < 0 && len(bg) > 0 {
			d.starve = bg[d.C.Choose("starve-which", len(bg))].ID
		}
		var others []*simrt.Task
		for _, t := range run {
			if t.ID != d.starve {
				others = append(others, t)
			}
		}
		if len(others) == 0 {
			return run[0]
		}
		return others[d.C.Choose("task", len(others))]
	}
	return run[d.C.Choose("task", len(run))]
}

// fireTimers turns every due timer into a task; it returns how many fired.
func (d *Driver) fireTimers() int {
	due := d.Env.Clock.TakeDue()
	for _, fn := range due {
		simrt.Go("timer", fn)
	}
	return len(due)
}

// anyBlocked reports whether some task is parked on a lock it could not get.
func (d *Driver) anyBlocked() bool {
	for _, t := range d.S.Tasks {
		if t.State == simrt.StParked && t.Blocked {
			if r := d.S.Pending(t); r != nil && r.Kind != "read" {
				return true
			}
		}
	}
	return false
}

// StepOne runs one scheduler step; false when nothing is runnable.
func (d *Driver) StepOne(clientIdle bool) bool {
	// timers (none in the repository today; a change may add time.AfterFunc):
	// between two steps time may pass up to the next timer, and due timers
	// become tasks
	if at, ok := d.Env.Clock.NextTimer(); ok {
		if at > d.Env.Clock.Nanos && d.C.Choose("time-passes", 4) == 0 {
			d.Env.Clock.Nanos = at
		}
		d.fireTimers()
	}
	run := d.S.RunnableTasks()
	if d.Policy == PolDispOnly || d.Policy == PolBgFirstExcept {
		var keep []*simrt.Task
		for _, t := range run {
			if !d.isBg(t) || (d.Policy == PolBgFirstExcept && !d.held[t.ID]) {
				keep = append(keep, t)
			}
		}
		run = keep
	}
	if len(run) == 0 {
		// nothing can run: jump the clock to the next timer, if any
		if at, ok := d.Env.Clock.NextTimer(); ok && d.Policy != PolDispOnly {
			if at > d.Env.Clock.Nanos {
				d.Env.Clock.Nanos = at
			}
			if d.fireTimers() > 0 {
				d.TimerJumps++
				return true
			}
		}
		return false
	}
	live := 0
	for _, t := range d.S.Tasks {
		if t.State != simrt.StDone && d.isBg(t) {
			live++
		}
	}
	if live > d.MaxLive {
		d.MaxLive = live
	}
	t := d.pick(run, clientIdle)
	if t == nil {
		return false
	}
	if d.last != nil && d.last != t && d.last.State == simrt.StParked && d.S.Runnable(d.last) {
		d.Preemptions++
	}
	d.last = t
	d.S.Step(t)
	if t == d.Sess.Disp {
		d.Sess.Settle()
	}
	d.drain()
	return true
}

func (d *Driver) drain() {
	for d.outSeen < len(d.Sess.Out) {
		m := &d.Sess.Out[d.outSeen]
		d.outSeen++
		if d.OnMsg != nil {
			d.OnMsg(m)
		}
	}
}

// Pump steps until cond holds, nothing is runnable, or the budget is spent.
func (d *Driver) Pump(cond func() bool, clientIdle bool) bool {
	for {
		if cond != nil && cond() {
			return true
		}
		if d.S.Steps > d.StepBudget {
			d.Livelock = true
			return false
		}
		if !d.StepOne(clientIdle) {
			return cond == nil
		}
	}
}

// PumpN runs up to n steps.
func (d *Driver) PumpN(n int) {
	for i := 0; i < n; i++ {
		if d.S.Steps > d.StepBudget || !d.StepOne(false) {
			return
		}
	}
}

// Quiesce runs until no task is runnable.  It reports deadlock (tasks blocked
// on locks with nothing runnable) through d.Deadlock.
func (d *Driver) Quiesce() bool {
	d.Pump(nil, true)
	if d.Livelock {
		return false
	}
	var blocked []string
	for _, t := range d.S.Tasks {
		if t.State == simrt.StParked && t.Blocked {
			r := d.S.Pending(t)
			if r != nil && r.Kind != "read" {
				blocked = append(blocked, fmt.Sprintf("%v blocked in %s at %s", t, r.Kind, r.Site))
			}
		}
	}
	if len(blocked) > 0 {
		sort.Strings(blocked)
		d.Deadlock = strings.Join(blocked, "; ")
		return false
	}
	return true
}

// Notify sends a notification (queues its bytes; nothing runs yet).
func (d *Driver) Notify(method string, params any) {
	d.activate()
	d.Sess.Notify(method, params)
}

// Call sends a request and pumps until its response arrives.
func (d *Driver) Call(method string, params any) *simwire.Msg {
	d.activate()
	id := d.Sess.Request(method, params)
	var resp *simwire.Msg
	d.waiting = true
	defer func() { d.waiting = false }()
	d.Pump(func() bool {
		resp = d.Sess.Response(id)
		return resp != nil
	}, false)
	return resp
}

// Resume re-activates this driver after another one ran.
func (d *Driver) Resume() { d.activate() }

// LiveBg counts background tasks that are not done.
func (d *Driver) LiveBg() int {
	n := 0
	for _, t := range d.S.Tasks {
		if t.State != simrt.StDone && d.isBg(t) {
			n++
		}
	}
	return n
}

// Teardown answers every pending server request with an error, closes the
// transport and runs everything to completion, so that no goroutine of this
// run stays blocked.
func (d *Driver) Teardown() {
	d.activate()
	if d.Policy == PolDispOnly || d.Policy == PolBgFirstExcept {
		d.Policy = PolBgFirst // release held tasks so that no goroutine stays parked
		d.held = nil
	}
	for _, id := range d.Sess.PendingServerRequests() {
		d.Sess.Respond(id, nil, map[string]any{"code": -32800, "message": "client is shutting down"})
	}
	d.quiet = true
	d.Pump(nil, true)
	d.Sess.Close()
	d.Pump(nil, true)
}

// ---- small JSON helpers ----------------------------------------------------------

type J = map[string]any

func pos(line, ch int) J       { return J{"line": line, "character": ch} }
func rng(l1, c1, l2, c2 int) J { return J{"start": pos(l1, c1), "end": pos(l2, c2)} }
func docID(uri string) J       { return J{"uri": uri} }
func canon(raw json.RawMessage) string {
	if len(raw) == 0 {
		return "null"
	}
	var v any
	if err := json.Unmarshal(raw, &v); err != nil {
		return "!" + string(raw)
	}
	b, _ := json.Marshal(v)
	return string(b)
}

// InitParams builds initialize params.
func InitParams(root string, useFolders bool, cfgCapability bool, initOptions any) J {
	p := J{
		"processId": 1,
		"capabilities": J{
			"workspace": J{"configuration": cfgCapability},
		},
	}
	if root != "" {
		if useFolders {
			p["workspaceFolders"] = []J{{"uri": "file://" + root, "name": "ws"}}
			p["rootUri"] = nil
		} else {
			p["rootUri"] = "file://" + root
		}
	} else {
		p["rootUri"] = nil
	}
	if initOptions != nil {
		p["initializationOptions"] = initOptions
	}
	return p
}

func jsonMarshal(v any) ([]byte, error) { return json.Marshal(v) }

func jsonUnmarshal(b []byte, v any) error { return json.Unmarshal(b, v) }
