//go:build verifsim

package engine

import (
	"encoding/json"
	"fmt"
	"sort"
	"strings"

	"github.com/juev/hledger-lsp/internal/verifsim/simrt"
)

// C16 and C18, for the part that depends on histories, tree membership and on
// settings delivered by the client: both run the history engine of C09/C20
// (treeEngine) and judge, at quiescent points, against the generator's
// occurrence table over the governing tree (open buffers over disk).

const c16Rule = "completion in account context (cursor inside an account name of a posting, 0..n characters typed) and in payee context (cursor inside the payee of a transaction header) from EVERY open document, with completion.maxResults and completion.fuzzyMatching delivered through workspace/configuration answers and changed during the history. Oracles against the occurrence table over the governing tree: (1) soundness: every offered name exists in the tree (an account or an ancestor of one; a payee) and matches the typed fragment (subsequence with fuzzy matching, prefix without); (2) completeness: when the limit did not cut the list, every existing name that starts with the fragment is offered; (3) at most maxResults items; (4) with nothing typed the usage counts of the offered names (postings per account, transactions per payee over the tree) are non-increasing; (5) prefix law: after the client changes maxResults (a configuration round trip) the same request returns a list of which the shorter is a prefix of the longer. Non-trivial: >= 2 files in the governing tree or a request from a document other than the root. Distinct: hash of (tree shapes over time, requesting documents)."

const c18Rule = "the diagnostics published for EVERY open document after it was re-analysed (a no-op edit), with diagnostics.undeclaredAccounts delivered through workspace/configuration answers and toggled during the history. Oracle against the occurrence table: the declared accounts are the account directives of all files of the governing tree (open buffers over disk); if there is none, or the setting is off, no UNDECLARED_ACCOUNT warning may be published; otherwise exactly the posting lines of the document whose account is neither declared, nor below a declared account, nor under assets/liabilities/equity/expenses/revenues/income carry one warning each; likewise, with diagnostics.undeclaredCommodities, each commodity without a commodity directive anywhere in the tree is warned about once per transaction, at its first use. Non-trivial: >= 2 files in the governing tree or a document other than the root. Distinct: hash of (tree shapes over time, observed documents)."

type treeSettings struct {
	maxResults int
	fuzzy      bool
	undeclAcct bool
	undeclCom  bool
}

func (s *treeSettings) draw(c *simrt.Chooser, prop string) {
	if prop == "c16" {
		s.maxResults = []int{200, 3, 1, 8, 50}[c.Choose("maxResults", 5)]
		s.fuzzy = c.Choose("fuzzy", 3) != 0
	}
	if prop == "c18" {
		s.undeclAcct = c.Choose("undeclaredAccounts", 4) != 0
		s.undeclCom = c.Choose("undeclaredCommodities", 4) != 0
	}
}

func (s *treeSettings) payload() J {
	return J{
		"completion":  J{"maxResults": s.maxResults, "fuzzyMatching": s.fuzzy},
		"diagnostics": J{"undeclaredAccounts": s.undeclAcct, "undeclaredCommodities": s.undeclCom},
	}
}

func isSubsequence(pat, text string) bool {
	pat, text = strings.ToLower(pat), strings.ToLower(text)
	j := 0
	for i := 0; i < len(text) && j < len(pat); i++ {
		if text[i] == pat[j] {
			j++
		}
	}
	return j == len(pat)
}

func treeNames(tree []*JDoc) string {
	var tn []string
	for _, t := range tree {
		tn = append(tn, fmt.Sprintf("d%d(%s)", t.No, map[bool]string{true: "open", false: "disk"}[t.Open]))
	}
	return "[" + strings.Join(tn, " ") + "]"
}

func (e treeEngine) observeCompletion(ctx *RunCtx, c *simrt.Chooser, d *Driver, w *JWorld, doc *JDoc, tree []*JDoc, st *treeSettings, reconfigure func(), fail func(string, string, string, map[string]any) bool) bool {
	kind := []string{"account", "payee"}[c.Choose("probe-kind", 2)]
	type cand struct {
		line int
		o    Occ
	}
	var cands []cand
	for li, gl := range doc.Lines {
		for _, o := range gl.Occs {
			switch {
			case kind == "account" && o.Kind == "account" && !o.Decl && o.Start == 4 && strings.HasPrefix(gl.Text, "    "):
				cands = append(cands, cand{li, o})
			case kind == "payee" && o.Kind == "payee" && o.Start == 11 && len(gl.Text) >= 11 && gl.Text[10] == ' ':
				cands = append(cands, cand{li, o})
			}
		}
	}
	if len(cands) == 0 {
		return true
	}
	cd := cands[c.Choose("probe-occ", len(cands))]
	k := 0
	if !c.Pct("nothing-typed", 35) {
		k = c.Choose("typed", len(cd.o.Name)+1)
	}
	frag := cd.o.Name[:k]
	// the model: names and usage counts over the governing tree
	names := map[string]bool{}
	counts := map[string]int{}
	for _, t := range tree {
		lines, _, _ := t.View()
		for _, gl := range lines {
			for _, o := range gl.Occs {
				if o.Kind != kind {
					continue
				}
				names[o.Name] = true
				if !o.Decl {
					counts[o.Name]++
				}
			}
		}
	}
	exists := func(label string) bool {
		if names[label] {
			return true
		}
		if kind == "account" {
			for n := range names {
				if strings.HasPrefix(n, label+":") {
					return true
				}
			}
		}
		return false
	}
	ask := func() ([]string, bool) {
		r := d.Call("textDocument/completion", J{"textDocument": docID(doc.URI), "position": pos(cd.line, cd.o.Start+k)})
		if r == nil {
			fail("liveness", "no-response", "completion not answered", nil)
			return nil, false
		}
		var cl struct {
			Items []struct {
				Label string `json:"label"`
			} `json:"items"`
		}
		json.Unmarshal(r.Result, &cl)
		var labels []string
		for _, it := range cl.Items {
			labels = append(labels, it.Label)
		}
		return labels, true
	}
	labels, ok := ask()
	if !ok {
		return false
	}
	where := fmt.Sprintf("completion in %s context from d%d @%d:%d (typed %q of %q; maxResults=%d fuzzy=%v; governing tree %s)", kind, doc.No, cd.line, cd.o.Start+k, frag, cd.o.Name, st.maxResults, st.fuzzy, treeNames(tree))
	ctx.T("  %s -> %v", where, labels)
	wit := map[string]any{"workspace": w.Root != "", "fromRoot": doc == tree[0], "kind": kind}
	if len(labels) > st.maxResults {
		fail("bounded", "more-than-maxResults", fmt.Sprintf("%s returned %d items", where, len(labels)), wit)
		return false
	}
	offered := map[string]bool{}
	for _, l := range labels {
		offered[l] = true
		if !exists(l) {
			fail("sound", "offers-a-name-that-does-not-exist:"+kind, fmt.Sprintf("%s offers %q, which no file of the tree contains", where, l), wit)
			return false
		}
		if st.fuzzy && !isSubsequence(frag, l) || !st.fuzzy && !strings.HasPrefix(strings.ToLower(l), strings.ToLower(frag)) {
			fail("sound", "offers-a-name-that-does-not-match:"+kind, fmt.Sprintf("%s offers %q, which does not match the fragment", where, l), wit)
			return false
		}
	}
	if len(labels) < st.maxResults {
		var missing []string
		for n := range names {
			if strings.HasPrefix(n, frag) && !offered[n] {
				missing = append(missing, n)
			}
		}
		sort.Strings(missing)
		if len(missing) > 0 {
			fail("complete", "misses-a-name-that-starts-with-the-fragment:"+kind, fmt.Sprintf("%s does not offer %v although the list is shorter than the limit", where, missing), wit)
			return false
		}
	}
	if k == 0 {
		for i := 1; i < len(labels); i++ {
			if counts[labels[i-1]] < counts[labels[i]] {
				fail("ranked", "less-used-name-first:"+kind, fmt.Sprintf("%s lists %q (used %d times in the tree) before %q (used %d times)", where, labels[i-1], counts[labels[i-1]], labels[i], counts[labels[i]]), wit)
				return false
			}
		}
	}
	// prefix law across a change of the limit
	if c.Pct("prefix-law", 40) {
		oldMax, oldFuzzy := st.maxResults, st.fuzzy
		reconfigure()
		st.fuzzy = oldFuzzy // only the limit differs between the two requests ...
		if st.maxResults == oldMax {
			st.maxResults = oldMax%7 + 1
		}
		// ... so deliver exactly that
		d.Notify("workspace/didChangeConfiguration", J{"settings": nil})
		d.Quiesce()
		for _, id := range d.Sess.PendingServerRequests() {
			d.Sess.Respond(id, []any{st.payload()}, nil)
		}
		d.Quiesce()
		again, ok := ask()
		if !ok {
			return false
		}
		short, long := labels, again
		if len(short) > len(long) {
			short, long = long, short
		}
		ctx.Stats.Inc("probe:prefix-law-checked")
		for i := range short {
			if short[i] != long[i] {
				fail("bounded", "smaller-limit-is-not-a-prefix", fmt.Sprintf("%s: with maxResults=%d the list is %v, with maxResults=%d it is %v", where, oldMax, labels, st.maxResults, again), wit)
				return false
			}
		}
		if len(again) > st.maxResults {
			fail("bounded", "more-than-maxResults", fmt.Sprintf("%s: after maxResults changed to %d the request returned %d items", where, st.maxResults, len(again)), wit)
			return false
		}
	}
	return true
}

var standardAccountTypes = map[string]bool{"assets": true, "liabilities": true, "equity": true, "expenses": true, "revenues": true, "income": true}

func (e treeEngine) observeUndeclared(ctx *RunCtx, c *simrt.Chooser, d *Driver, w *JWorld, doc *JDoc, tree []*JDoc, st *treeSettings, fail func(string, string, string, map[string]any) bool) bool {
	// re-analyse the document under the current state and settings
	if w.Root != "" {
		doc.LSPVer++
		d.Notify("textDocument/didChange", J{"textDocument": J{"uri": doc.URI, "version": doc.LSPVer}, "contentChanges": []J{{"text": doc.Text}}})
		if !d.Quiesce() {
			fail("liveness", "no-quiescence", d.Deadlock, nil)
			return false
		}
	}
	declared := map[string]bool{}
	for _, t := range tree {
		lines, _, _ := t.View()
		for _, gl := range lines {
			for _, o := range gl.Occs {
				if o.Kind == "account" && o.Decl {
					declared[o.Name] = true
				}
			}
		}
	}
	isDeclared := func(name string) bool {
		top := name
		if i := strings.Index(name, ":"); i >= 0 {
			top = name[:i]
		}
		if standardAccountTypes[strings.ToLower(top)] || declared[name] {
			return true
		}
		for dn := range declared {
			if strings.HasPrefix(name, dn+":") {
				return true
			}
		}
		return false
	}
	want := map[int]int{}
	if st.undeclAcct && len(declared) > 0 {
		for li, gl := range doc.Lines {
			for _, o := range gl.Occs {
				if o.Kind == "account" && !o.Decl && o.Start == 4 && !isDeclared(o.Name) {
					want[li]++
				}
			}
		}
	}
	got := map[int]int{}
	found := false
	for i := len(d.Sess.Out) - 1; i >= 0 && !found; i-- {
		m := &d.Sess.Out[i]
		if m.Method != "textDocument/publishDiagnostics" {
			continue
		}
		var p struct {
			URI         string `json:"uri"`
			Diagnostics []struct {
				Code  any `json:"code"`
				Range struct{ Start struct{ Line int } }
			} `json:"diagnostics"`
		}
		json.Unmarshal(m.Params, &p)
		if normURI(p.URI) != normURI(doc.URI) {
			continue
		}
		found = true
		for _, dg := range p.Diagnostics {
			if fmt.Sprint(dg.Code) == "UNDECLARED_ACCOUNT" {
				got[dg.Range.Start.Line]++
			}
		}
	}
	if !found {
		fail("liveness", "no-publish", fmt.Sprintf("no diagnostics were published for open document d%d", doc.No), nil)
		return false
	}
	dn := keysOf(map[string]bool{})
	for k := range declared {
		dn = append(dn, k)
	}
	sort.Strings(dn)
	ctx.T("  undeclared-account warnings for d%d: lines %v; model: %v (declared over %s: %v; setting %v)", doc.No, got, want, treeNames(tree), dn, st.undeclAcct)
	if fmt.Sprint(got) != fmt.Sprint(want) {
		cls := "wrong-lines"
		switch {
		case len(want) == 0:
			cls = "warnings-although-none-expected"
		case len(got) == 0:
			cls = "no-warnings-although-the-tree-declares-accounts"
		}
		fail("ground-truth", cls, fmt.Sprintf("UNDECLARED_ACCOUNT warnings published for d%d are on lines %v (line -> count); accounts declared over the governing tree %s are %v and diagnostics.undeclaredAccounts=%v, so they must be on lines %v", doc.No, got, treeNames(tree), dn, st.undeclAcct, want),
			map[string]any{"workspace": w.Root != "", "fromRoot": doc == tree[0]})
		return false
	}
	// commodities: each undeclared commodity once per transaction, at its first use
	declCom := map[string]bool{}
	for _, t := range tree {
		lines, _, _ := t.View()
		for _, gl := range lines {
			for _, o := range gl.Occs {
				if o.Kind == "commodity" && o.Decl {
					declCom[o.Name] = true
				}
			}
		}
	}
	wantC := map[string]int{}
	if st.undeclCom && len(declCom) > 0 {
		seen := map[string]bool{}
		for li, gl := range doc.Lines {
			if !strings.HasPrefix(gl.Text, " ") {
				seen = map[string]bool{} // a new entry starts
			}
			for _, o := range gl.Occs {
				if o.Kind == "commodity" && !o.Decl && strings.HasPrefix(gl.Text, "    ") && !declCom[o.Name] && !seen[o.Name] {
					seen[o.Name] = true
					wantC[fmt.Sprintf("%d:%s", li, o.Name)]++
				}
			}
		}
	}
	gotC := map[string]int{}
	for i := len(d.Sess.Out) - 1; i >= 0; i-- {
		m := &d.Sess.Out[i]
		if m.Method != "textDocument/publishDiagnostics" {
			continue
		}
		var p struct {
			URI         string `json:"uri"`
			Diagnostics []struct {
				Code    any    `json:"code"`
				Message string `json:"message"`
				Range   struct{ Start struct{ Line int } }
			} `json:"diagnostics"`
		}
		json.Unmarshal(m.Params, &p)
		if normURI(p.URI) != normURI(doc.URI) {
			continue
		}
		for _, dg := range p.Diagnostics {
			if fmt.Sprint(dg.Code) == "UNDECLARED_COMMODITY" {
				name := ""
				if a := strings.Index(dg.Message, "'"); a >= 0 {
					if b := strings.Index(dg.Message[a+1:], "'"); b >= 0 {
						name = dg.Message[a+1 : a+1+b]
					}
				}
				gotC[fmt.Sprintf("%d:%s", dg.Range.Start.Line, name)]++
			}
		}
		break
	}
	var dc []string
	for k := range declCom {
		dc = append(dc, k)
	}
	sort.Strings(dc)
	if fmt.Sprint(gotC) != fmt.Sprint(wantC) {
		cls := "wrong-commodity-warnings"
		switch {
		case len(wantC) == 0:
			cls = "commodity-warnings-although-none-expected"
		case len(gotC) == 0:
			cls = "no-commodity-warnings-although-the-tree-declares-commodities"
		}
		fail("ground-truth", cls, fmt.Sprintf("UNDECLARED_COMMODITY warnings published for d%d are %v (line:commodity -> count); commodities declared over the governing tree %s are %v and diagnostics.undeclaredCommodities=%v, so they must be %v", doc.No, gotC, treeNames(tree), dc, st.undeclCom, wantC),
			map[string]any{"workspace": w.Root != "", "fromRoot": doc == tree[0]})
		return false
	}
	return true
}
