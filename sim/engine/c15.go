//go:build verifsim

package engine

import (
	"fmt"
	"sort"
	"strings"

	"github.com/juev/hledger-lsp/internal/verifsim/simrt"
)

// C15: responses are a function of workspace state (determinism).
type c15 struct{}

func init() { Register(c15{}) }

func (c15) Name() string { return "c15" }
func (c15) Rule() string {
	return "one generated world per run (workspace or not; main.journal including a.journal and b.journal; >= 2 commodities out of balance in one transaction; payees shared between files with different posting templates; accounts, tags and dates with equal usage counts; 2..3 open documents) and one fixed script of requests (completion in account/payee/commodity/tag/date context, hover, definition, references, rename, documentSymbol, workspace/symbol, inlineCompletion, formatting, semanticTokens, foldingRange), each request issued twice; in 40% of the runs the root journal first drops its include lines and takes them back (both included files re-enter the tree with one edit), and in half of the non-canonical variants documents reach their contents by another legal route (open, close unsaved, open again; open with other text and change to the contents at once). The script runs on V fresh servers (V = 6 quick, 16 thorough): variant 0 with canonical (sorted) map iteration and sequential scheduling, the others with a seeded permutation of EVERY map iteration of the repository's code (and sync.Map.Range) and a seeded background schedule. Oracle: the canonical serialisation of everything the client received at quiescent points (each response, last diagnostics per URI including message text) is identical across variants and between the two repetitions. On a mismatch the permutation is narrowed to single range sites to name the culprit statements. Non-trivial: >= 1 variant applied a permutation at a site that was reached. Distinct: hash of the world + set of sites permuted."
}
func (c15) Enumerated(string) int            { return 0 }
func (c15) Components() ([]string, []string) { return serverComponents() }

type c15req struct {
	Method string
	Params J
	Label  string
}

func c15World(c *simrt.Chooser, workspace bool) (*Env, string, []RefDoc, []c15req) {
	env := NewEnv()
	env.Disk.Env["HOME"] = "/sim"
	coms := []string{"USD", "EUR", "BTC", "GBP"}
	c1, c2 := coms[c.Choose("com1", 4)], coms[c.Choose("com2", 4)]
	if c1 == c2 {
		c2 = coms[(c.Choose("com2b", 3)+1+indexOf(coms, c1))%4]
	}
	payees := []string{"grocer", "landlord", "cafe luna", "employer"}
	shared := payees[c.Choose("shared-payee", 4)]
	accts := []string{"expenses:food", "expenses:rent", "assets:bank", "assets:cash", "income:salary", "expenses:fun"}
	pa := func(label string) string { return accts[c.Choose(label, len(accts))] }
	tag1, tag2 := "trip", "project"
	main := fmt.Sprintf(`; main
include a.journal
include b.journal
account %s
commodity 1,000.00 %s

2024-01-10 %s  ; %s:x, %s:y
    %s  10 %s
    %s  5 %s
    %s

2024-01-10 two commodities off
    %s  3 %s
    %s  4 %s
    %s  1 %s

2024-01-11 * %s
    %s  7 %s
    %s
`, pa("decl"), c1, shared, tag1, tag2, pa("m1"), c1, pa("m2"), c2, pa("m3"),
		pa("u1"), c1, pa("u2"), c2, pa("u3"), "XAU", payees[c.Choose("p2", 4)], pa("m4"), c1, pa("m5"))
	a := fmt.Sprintf(`; a
account %s
2024-02-01 %s  ; %s:z
    %s  1 %s
    %s

2024-02-02 %s
    %s  2 %s
    %s  -2 %s
`, pa("adecl"), shared, tag1, pa("a1"), c2, pa("a2"), payees[c.Choose("p3", 4)], pa("a3"), c1, pa("a4"), c1)
	b := fmt.Sprintf(`; b
commodity 1.000,00 %s
2024-02-01 %s
    %s  9 %s
    %s  1 %s
    %s

2024-01-10 %s
    %s  2 %s
    %s
`, c2, shared, pa("b1"), c1, pa("b2"), c2, pa("b3"), payees[c.Choose("p4", 4)], pa("b4"), c2, pa("b5"))
	env.Disk.WriteFile("/sim/ws/main.journal", []byte(main))
	env.Disk.WriteFile("/sim/ws/a.journal", []byte(a))
	env.Disk.WriteFile("/sim/ws/b.journal", []byte(b))
	root := ""
	if workspace {
		root = "/sim/ws"
	}
	mu, au, bu := "file:///sim/ws/main.journal", "file:///sim/ws/a.journal", "file:///sim/ws/b.journal"
	docs := []RefDoc{{URI: mu, Text: main}, {URI: au, Text: a}}
	if c.Bool("open-b") {
		docs = append(docs, RefDoc{URI: bu, Text: b})
	}
	td := func(u string, l, ch int) J { return J{"textDocument": docID(u), "position": pos(l, ch)} }
	reqs := []c15req{
		{"textDocument/completion", td(mu, 7, 4), "completion account context (empty)"},
		{"textDocument/completion", td(mu, 7, 7), "completion account context (fragment)"},
		{"textDocument/completion", td(mu, 16, 13), "completion payee context"},
		{"textDocument/completion", td(mu, 16, 11), "completion payee context (empty)"},
		{"textDocument/completion", J{"textDocument": docID(mu), "position": pos(6, len("2024-01-10 "+shared+"  ; ")), "context": J{"triggerKind": 1}}, "completion tag context"},
		{"textDocument/completion", td(mu, 19, 0), "completion date context"},
		{"textDocument/completion", td(au, 3, 4), "completion in included file"},
		{"textDocument/hover", td(mu, 7, 6), "hover account"},
		{"textDocument/hover", td(mu, 6, 13), "hover payee"},
		{"textDocument/hover", td(au, 3, 6), "hover account from included file"},
		{"textDocument/definition", td(mu, 7, 6), "definition account"},
		{"textDocument/references", J{"textDocument": docID(mu), "position": pos(7, 6), "context": J{"includeDeclaration": true}}, "references account"},
		{"textDocument/references", J{"textDocument": docID(mu), "position": pos(6, 13), "context": J{"includeDeclaration": true}}, "references payee"},
		{"textDocument/rename", J{"textDocument": docID(mu), "position": pos(7, 6), "newName": "zz:renamed"}, "rename account"},
		{"textDocument/documentSymbol", J{"textDocument": docID(mu)}, "documentSymbol"},
		{"workspace/symbol", J{"query": ""}, "workspace/symbol all"},
		{"workspace/symbol", J{"query": "e"}, "workspace/symbol e"},
		{"textDocument/inlineCompletion", td(mu, 6, len("2024-01-10 "+shared)), "inlineCompletion shared payee"},
		{"textDocument/formatting", J{"textDocument": docID(mu), "options": J{"tabSize": 4, "insertSpaces": true}}, "formatting"},
		{"textDocument/semanticTokens/full", J{"textDocument": docID(mu)}, "semanticTokens"},
		{"textDocument/foldingRange", J{"textDocument": docID(mu)}, "foldingRange"},
		{"textDocument/documentLink", J{"textDocument": docID(mu)}, "documentLink"},
	}
	return env, root, docs, reqs
}

func indexOf(xs []string, x string) int {
	for i, y := range xs {
		if y == x {
			return i
		}
	}
	return 0
}

type c15variant struct {
	salt   uint64
	only   string // "" = all sites
	policy int
	chunk  bool
	flap   bool // the root journal drops its include lines and takes them back before the requests
	routes bool // documents may reach their contents by another route (close and re-open, open with other text then change)
}

// c15Transcript runs the script on a fresh server.
func c15Transcript(ctx *RunCtx, c *simrt.Chooser, env *Env, root string, docs []RefDoc, reqs []c15req, v c15variant, main bool) (lines []string, sites []string, trouble string) {
	log := simrt.NewLog(false)
	if main {
		log = ctx.Log
	}
	d := NewDriver(ctx, c, env.Clone(), v.policy, "variant", log)
	d.MapSalt = v.salt
	if v.only != "" {
		only := v.only
		inner := d.S.MapOrder
		d.S.MapOrder = func(site string, n int) []int {
			if site != only {
				d.mapCalls[site]++
				return nil
			}
			return inner(site, n)
		}
	}
	defer d.Teardown()
	if r := d.Call("initialize", InitParams(root, false, false, nil)); r == nil {
		return nil, nil, "initialize not answered"
	}
	d.Notify("initialized", J{})
	for _, doc := range docs {
		// the canonical variant opens every document once; the others may reach
		// the same contents by another legal route
		route := 0
		if v.routes {
			route = c.Choose("route", 3)
		}
		switch route {
		case 1: // open, close without saving, open again
			d.Notify("textDocument/didOpen", J{"textDocument": J{"uri": doc.URI, "languageId": "hledger", "version": 1, "text": doc.Text}})
			d.PumpN(c.Choose("steps", 12))
			d.Notify("textDocument/didClose", J{"textDocument": docID(doc.URI)})
			d.PumpN(c.Choose("steps", 12))
			d.Notify("textDocument/didOpen", J{"textDocument": J{"uri": doc.URI, "languageId": "hledger", "version": 1, "text": doc.Text}})
		case 2: // open with an unbalanced line in front, then change to the contents
			d.Notify("textDocument/didOpen", J{"textDocument": J{"uri": doc.URI, "languageId": "hledger", "version": 1, "text": "2024-01-01 draft\n    assets:bank  10 EUR\n    expenses:food  -7 EUR\n\n" + doc.Text}})
			if c.Bool("steps-before-change") {
				d.PumpN(c.Choose("steps", 12))
			}
			d.Notify("textDocument/didChange", J{"textDocument": J{"uri": doc.URI, "version": 2}, "contentChanges": []J{{"text": doc.Text}}})
		default:
			d.Notify("textDocument/didOpen", J{"textDocument": J{"uri": doc.URI, "languageId": "hledger", "version": 1, "text": doc.Text}})
		}
		if v.policy != PolBgFirst {
			d.PumpN(c.Choose("steps", 12))
		}
	}
	if !d.Quiesce() {
		return nil, nil, "no quiescence: " + d.Deadlock
	}
	if v.flap {
		// both included files leave the tree and re-enter it with one edit: the
		// state afterwards is the same fixed set of contents
		var keep []string
		for _, l := range strings.Split(docs[0].Text, "\n") {
			if !strings.HasPrefix(l, "include ") {
				keep = append(keep, l)
			}
		}
		d.Notify("textDocument/didChange", J{"textDocument": J{"uri": docs[0].URI, "version": 2}, "contentChanges": []J{{"text": strings.Join(keep, "\n")}}})
		if v.policy != PolBgFirst {
			d.PumpN(c.Choose("steps", 12))
		}
		d.Notify("textDocument/didChange", J{"textDocument": J{"uri": docs[0].URI, "version": 3}, "contentChanges": []J{{"text": docs[0].Text}}})
		if !d.Quiesce() {
			return nil, nil, "no quiescence: " + d.Deadlock
		}
	}
	for _, rq := range reqs {
		for rep := 0; rep < 2; rep++ {
			r := d.Call(rq.Method, rq.Params)
			if r == nil {
				return nil, nil, rq.Label + " not answered"
			}
			lines = append(lines, fmt.Sprintf("%s #%d: %s", rq.Label, rep+1, CanonResponse(r.Result, r.Error)))
		}
	}
	d.Quiesce()
	last := map[string]string{}
	for i := range d.Sess.Out {
		m := &d.Sess.Out[i]
		if m.Method == "textDocument/publishDiagnostics" {
			var p struct {
				URI string `json:"uri"`
			}
			jsonUnmarshal(m.Params, &p)
			last[p.URI] = canon(m.Params)
		}
	}
	for _, u := range keysOf(last) {
		lines = append(lines, "final diagnostics "+u+": "+last[u])
	}
	if len(d.S.Panics)+len(d.Sess.Panics) > 0 {
		return nil, nil, "panic"
	}
	for s := range d.mapCalls {
		sites = append(sites, s)
	}
	sort.Strings(sites)
	return lines, sites, ""
}

func (c15) Run(ctx *RunCtx) {
	c := ctx.C
	workspace := c.Pct("workspace", 60)
	env, root, docs, reqs := c15World(c, workspace)
	ctx.T("workspace=%v; main.journal:\n%s", workspace, indent(docs[0].Text))
	ctx.T("a.journal:\n%s", indent(docs[1].Text))
	if d, ok := env.Disk.Read("/sim/ws/b.journal"); ok {
		ctx.T("b.journal:\n%s", indent(string(d)))
	}
	fail := func(class, msg string, wit map[string]any) {
		ctx.T("VERDICT %s: %s", class, msg)
		ctx.Fail(&Violation{Property: "C15", Oracle: "variant-equality", Class: class, Msg: msg, Witness: wit})
	}
	zero := simrt.NewReplayChooser(nil)
	flap := c.Pct("flap-includes", 40)
	if flap {
		ctx.T("before the requests main.journal drops its include lines and takes them back (didChange x2)")
	}
	base, sites, trouble := c15Transcript(ctx, zero, env, root, docs, reqs, c15variant{policy: PolBgFirst, flap: flap}, false)
	if trouble != "" {
		fail("script-failed", "canonical variant: "+trouble, nil)
		return
	}
	// repetitions inside one variant
	for i := 0; i+1 < 2*len(reqs); i += 2 {
		if base[i][strings.Index(base[i], ": "):] != base[i+1][strings.Index(base[i+1], ": "):] {
			fail("repetition", fmt.Sprintf("two identical requests on one server returned different results: %s  VS  %s", trunc(base[i], 300), trunc(base[i+1], 300)), nil)
			return
		}
	}
	nv := 5
	if ctx.Tier == "thorough" {
		nv = 15
	}
	permutedReached := false
	for v := 1; v <= nv; v++ {
		variant := c15variant{salt: uint64(1 + c.Choose("salt", 1<<20)), policy: c.Choose("policy", numPolicies), chunk: false, flap: flap, routes: c.Pct("routes", 50)}
		mode := "all sites"
		if len(sites) > 0 && c.Pct("single-site", 30) {
			variant.only = sites[c.Choose("site", len(sites))]
			mode = "only " + variant.only
		}
		main := v == 1
		got, vsites, trouble := c15Transcript(ctx, c, env, root, docs, reqs, variant, main)
		if trouble != "" {
			fail("script-failed", fmt.Sprintf("variant %d (%s, policy %s): %s", v, mode, policyNames[variant.policy], trouble), nil)
			return
		}
		if len(vsites) > 0 {
			permutedReached = true
		}
		ctx.T("variant %d: salt=%d %s policy=%s: %d map-range sites reached", v, variant.salt, mode, policyNames[variant.policy], len(vsites))
		for i := range base {
			if i >= len(got) || base[i] != got[i] {
				g := "<missing>"
				if i < len(got) {
					g = got[i]
				}
				// narrow to single sites (sequential schedule, same salt)
				var culprits []string
				if variant.only == "" {
					for _, s := range vsites {
						one, _, tr := c15Transcript(ctx, simrt.NewReplayChooser(nil), env, root, docs, reqs, c15variant{salt: variant.salt, only: s, policy: PolBgFirst, flap: flap}, false)
						if tr == "" && (i >= len(one) || one[i] != base[i]) {
							culprits = append(culprits, s)
						}
					}
				} else {
					culprits = []string{variant.only}
				}
				schedOnly, _, _ := c15Transcript(ctx, simrt.NewReplayChooser(nil), env, root, docs, reqs, c15variant{salt: variant.salt, only: variant.only, policy: PolBgFirst, flap: flap}, false)
				cause := "map iteration order"
				if i < len(schedOnly) && schedOnly[i] == base[i] && len(culprits) == 0 {
					cause = "background schedule"
				}
				label := base[i][:strings.Index(base[i], ":")]
				cls := "order-dependent:" + strings.Fields(label)[0]
				if strings.HasPrefix(label, "final diagnostics") {
					cls = "order-dependent:diagnostics"
				}
				fail(cls, fmt.Sprintf("%q differs between two fresh servers given the same inputs (cause: %s; range statements whose order matters: %v). canonical: %s  VS  variant: %s",
					label, cause, culprits, trunc(diffHint(base[i], g), 400), trunc(diffHint(g, base[i]), 400)),
					map[string]any{"label": label, "culprits": culprits, "cause": cause})
				ctx.NonTrivial = true
				ctx.SigExtra = label
				return
			}
		}
	}
	ctx.NonTrivial = permutedReached
	ctx.SigExtra = fmt.Sprintf("%v/%d/%s", workspace, len(docs), docs[0].Text)
	if permutedReached {
		ctx.Stats.Inc("probe:map-permutation-applied-at-a-reached-site")
	}
	ctx.Stats.Max("max:map-range-sites-reached", int64(len(sites)))
	ctx.Stats.Add("variants", int64(nv+1))
}
