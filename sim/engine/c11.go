package engine

import (
	"fmt"
	"reflect"
	"sort"
	"strings"

	"github.com/juev/hledger-lsp/internal/include"
	"github.com/juev/hledger-lsp/internal/verifsim/simfs"
	"github.com/juev/hledger-lsp/internal/verifsim/simrt"
)

// C11: include loading is independent of cache history.  Component simulation:
// one shared include.Loader on the simulated disk, driven through a history of
// load / edit+invalidate / clear-cache operations; after every load a fresh
// loader reads the same disk and must give the same result.
type c11 struct{}

func init() { Register(c11{}) }

func (c11) Name() string { return "c11" }
func (c11) Rule() string {
	return "seeded histories of 2..6 operations (Load(root_i), LoadFromContent(root_i,text), external rewrite / creation / deletion of a file followed by InvalidateFile or ClearCache, ClearCache, SetLimits, a load hit by one one-shot disk fault (enoent, eio, torn read, stat-then-delete, stat-small-then-grow; torn/deleted/grown files are invalidated afterwards) whose own result is not judged but which must not poison the cache) on ONE shared include.Loader over a generated include graph of 2..5 files (relative/./absolute/~/glob forms, cycles, diamonds, chains longer than the depth limit, files above the size limit) on the simulated disk; include depth limit default or 1..4, size limit default or small; after every load a fresh loader with the same limits on the same disk must return equal Files, FileOrder, syntax trees and errors. Concurrent class (a quarter of the runs): a Load is in flight as a scheduled task, preempted at every lock and disk call, while another task rewrites a file and invalidates it (or changes the limits, or clears the cache); once both are done the in-flight load must have returned what a fresh loader returns before or after the change (old or new, never a mixture) and a further load on the shared loader must equal a fresh loader. Non-trivial: at least two loads and at least one load that hit the cache on a file that itself has includes, or an invalidation between two loads, or an invalidation that landed inside a load. Distinct: hash of (graph shape, limits, operation sequence, interleaving)."
}
func (c11) Enumerated(string) int { return 0 }
func (c11) Components() ([]string, []string) {
	return []string{"internal/include (Loader, resolver)", "internal/parser", "internal/ast", "doublestar matcher"},
		[]string{"disk and environment (simfs)", "map iteration order (simrt.MapSeq)", "sync.RWMutex (simsync, direct mode)"}
}

func loadResultEqual(a *include.ResolvedJournal, ae []include.LoadError, b *include.ResolvedJournal, be []include.LoadError) string {
	if (a == nil) != (b == nil) {
		return fmt.Sprintf("result nil-ness differs: shared=%v fresh=%v", a == nil, b == nil)
	}
	if a != nil {
		ka, kb := keysOf(a.Files), keysOf(b.Files)
		if !reflect.DeepEqual(ka, kb) {
			return fmt.Sprintf("file set differs: shared=%v fresh=%v", ka, kb)
		}
		if !reflect.DeepEqual(a.FileOrder, b.FileOrder) && !(len(a.FileOrder) == 0 && len(b.FileOrder) == 0) {
			return fmt.Sprintf("file order differs: shared=%v fresh=%v", a.FileOrder, b.FileOrder)
		}
		if !reflect.DeepEqual(a.Primary, b.Primary) {
			return "primary syntax tree differs"
		}
		for _, k := range ka {
			if !reflect.DeepEqual(a.Files[k], b.Files[k]) {
				return fmt.Sprintf("syntax tree of %s differs (stale content)", k)
			}
		}
	}
	if len(ae) != len(be) {
		return fmt.Sprintf("error count differs: shared=%s fresh=%s", errList(ae), errList(be))
	}
	for i := range ae {
		if ae[i] != be[i] {
			return fmt.Sprintf("error %d differs: shared=%s fresh=%s", i, errList(ae), errList(be))
		}
	}
	return ""
}

func keysOf[V any](m map[string]V) []string {
	out := make([]string, 0, len(m))
	for k := range m {
		out = append(out, k)
	}
	sort.Strings(out)
	return out
}

func errList(es []include.LoadError) string {
	var out []string
	for _, e := range es {
		out = append(out, fmt.Sprintf("{kind=%d path=%s L%d %q}", e.Kind, e.Path, e.Range.Start.Line, e.Message))
	}
	return "[" + strings.Join(out, " ") + "]"
}

func (c11) Run(ctx *RunCtx) {
	c := ctx.C
	simrt.Activate(nil)
	simrt.DirectMapOrder = nil
	w := GenIncWorld(c, IncOpts{MinFiles: 2, MaxFiles: 5, Globs: true, Specials: false, EdgePct: 30})
	simfs.Active = w.Disk
	for _, l := range w.Describe() {
		ctx.T("%s", l)
	}
	shared := include.NewLoader()
	limits := include.DefaultLimits()
	drawLimits := func() {
		limits = include.DefaultLimits()
		if c.Pct("small-depth", 40) {
			limits.MaxIncludeDepth = 1 + c.Choose("depth", 4)
		}
		if c.Pct("small-size", 20) {
			limits.MaxFileSizeBytes = int64(60 + 40*c.Choose("size", 5))
		}
	}
	if c.Pct("limits", 50) {
		drawLimits()
		shared.SetLimits(limits)
		ctx.T("SetLimits(depth=%d size=%d)", limits.MaxIncludeDepth, limits.MaxFileSizeBytes)
	}
	newFresh := func() *include.Loader {
		l := include.NewLoader()
		l.SetLimits(limits)
		return l
	}
	if c.Pct("concurrent", 25) {
		c11Concurrent(ctx, w, shared, &limits, newFresh)
		return
	}
	created := 0
	nops := c.Range("nops", 2, 6)
	loads, invalidations, cacheHitsNested := 0, 0, 0
	loadedBefore := map[string]bool{}
	var sig []string
	version := 0
	for op := 0; op < nops; op++ {
		kind := c.Weighted("op", []int{5, 2, 3, 1, 1, 2, 2})
		switch kind {
		case 0, 1:
			root := w.Files[c.Choose("root", len(w.Files))]
			var res, fres *include.ResolvedJournal
			var errs, ferrs []include.LoadError
			fresh := newFresh()
			// probe: will this load hit the cache on a file that has includes?
			for _, f := range w.Files {
				if loadedBefore[f.Path] && len(f.Incs) > 0 && f.Path != root.Path {
					cacheHitsNested++
					break
				}
			}
			if kind == 0 {
				ctx.T("Load(%s)", root.Path)
				res, errs = shared.Load(root.Path)
				fres, ferrs = fresh.Load(root.Path)
				sig = append(sig, "L"+root.Path)
			} else {
				// unsaved buffer of the root: its disk text plus one more line
				data, _ := w.Disk.Read(root.Path)
				text := string(data) + fmt.Sprintf("\n2024-03-01 unsaved%d\n    u:a  1 USD\n    u:b\n", op)
				ctx.T("LoadFromContent(%s, disk text + unsaved transaction)", root.Path)
				res, errs = shared.LoadFromContent(root.Path, text)
				fres, ferrs = fresh.LoadFromContent(root.Path, text)
				sig = append(sig, "C"+root.Path)
			}
			loads++
			if res != nil {
				for p := range res.Files {
					loadedBefore[p] = true
				}
			}
			if d := loadResultEqual(res, errs, fres, ferrs); d != "" {
				ctx.T("  MISMATCH: %s", d)
				cls := "result-differs"
				switch {
				case strings.HasPrefix(d, "file set"):
					cls = "file-set"
				case strings.HasPrefix(d, "file order"):
					cls = "file-order"
				case strings.HasPrefix(d, "syntax tree"):
					cls = "stale-content"
				case strings.HasPrefix(d, "error"):
					cls = "errors"
				}
				ctx.Fail(&Violation{Property: "C11", Oracle: "fresh-loader", Class: cls,
					Msg: fmt.Sprintf("after %d operations, load of %s on the shared loader differs from a fresh loader on the same disk: %s", op+1, root.Path, d)})
				ctx.NonTrivial = true
				ctx.SigExtra = strings.Join(sig, ",")
				return
			}
		case 2:
			f := w.Files[c.Choose("edit-file", len(w.Files))]
			version++
			// rewrite the file: keep or drop its include lines, change a transaction
			text := f.Text
			if c.Pct("drop-includes", 30) {
				var keep []string
				for _, l := range strings.Split(text, "\n") {
					if !strings.HasPrefix(l, "include ") {
						keep = append(keep, l)
					}
				}
				text = strings.Join(keep, "\n")
			}
			text += fmt.Sprintf("\n2024-04-01 edit%d\n    e%d:x  %d USD\n    e%d:y\n", version, version, version, version)
			w.Disk.WriteFile(f.Path, []byte(text))
			if c.Bool("invalidate-how") {
				ctx.T("external write %s (v%d) + InvalidateFile", f.Path, version)
				shared.InvalidateFile(f.Path)
			} else {
				ctx.T("external write %s (v%d) + ClearCache", f.Path, version)
				shared.ClearCache()
				loadedBefore = map[string]bool{}
			}
			delete(loadedBefore, f.Path)
			invalidations++
			sig = append(sig, fmt.Sprintf("E%s", f.Path))
		case 3:
			ctx.T("ClearCache")
			shared.ClearCache()
			loadedBefore = map[string]bool{}
			sig = append(sig, "X")
		case 4:
			drawLimits()
			ctx.T("SetLimits(depth=%d size=%d)", limits.MaxIncludeDepth, limits.MaxFileSizeBytes)
			shared.SetLimits(limits)
			sig = append(sig, fmt.Sprintf("S%d/%d", limits.MaxIncludeDepth, limits.MaxFileSizeBytes))
		case 6:
			// a load hit by ONE one-shot disk fault (its own result is C10's
			// business): whatever the fault was, it must not poison the cache for
			// the loads that follow.  A fault that leaves the disk or a cached parse
			// different from the file (torn read = the writer was mid-save, file
			// deleted right after the stat, file grown after the stat) is followed by
			// InvalidateFile of that path: the writer finished and the loader was told.
			root := w.Files[c.Choose("root", len(w.Files))]
			at := c.Choose("fault-at-call", 16)
			fk := []simfs.FaultKind{simfs.FEnoent, simfs.FEio, simfs.FTorn, simfs.FStatSmall, simfs.FDelAfter}[c.Choose("fault-kind", 5)]
			base := w.Disk.Calls
			hitPath := ""
			w.Disk.Fault = func(op, p string, idx int) simfs.Fault {
				if idx-base != at || hitPath != "" {
					return simfs.Fault{}
				}
				switch fk {
				case simfs.FEio, simfs.FTorn:
					if op != "read" {
						return simfs.Fault{}
					}
				case simfs.FStatSmall, simfs.FDelAfter:
					if op != "stat" {
						return simfs.Fault{}
					}
				case simfs.FEnoent:
					if op != "stat" && op != "read" {
						return simfs.Fault{}
					}
				}
				hitPath = p
				return simfs.Fault{Kind: fk, Arg: c.Choose("torn-keep", 40)}
			}
			func() {
				defer func() {
					if r := recover(); r != nil {
						ctx.Fail(&Violation{Property: "C11", Oracle: "fresh-loader", Class: "crash-under-fault", Msg: fmt.Sprintf("Load(%s) with a one-shot disk fault at its call %d panicked: %v", root.Path, at, r)})
					}
				}()
				shared.Load(root.Path)
			}()
			w.Disk.Fault = nil
			if len(ctx.Violations) > 0 {
				return
			}
			if hitPath != "" {
				ctx.Stats.Inc("fault:" + map[simfs.FaultKind]string{simfs.FEnoent: "enoent-oneshot", simfs.FEio: "eio-oneshot", simfs.FTorn: "torn", simfs.FStatSmall: "toctou-grow", simfs.FDelAfter: "toctou-del"}[fk])
				ctx.T("Load(%s) hit by a one-shot fault (kind %d) on %s at its disk call %d", root.Path, fk, hitPath, at)
				if fk == simfs.FTorn || fk == simfs.FStatSmall || fk == simfs.FDelAfter {
					shared.InvalidateFile(hitPath)
					ctx.T("  InvalidateFile(%s): the writer finished and the loader was told", hitPath)
				}
				invalidations++
				sig = append(sig, fmt.Sprintf("F%d@%d", fk, at))
			} else {
				ctx.T("Load(%s) (no disk call %d: fault not fired)", root.Path, at)
				sig = append(sig, "L"+root.Path)
			}
			loads++
		case 5:
			// a file appears or disappears on disk (matching the glob includes of
			// its directory) and the loader is told about that path
			var p string
			if paths := w.Disk.Paths(); c.Pct("delete", 40) && len(paths) > 0 {
				var js []string
				for _, q := range paths {
					if strings.HasSuffix(q, ".journal") {
						js = append(js, q)
					}
				}
				if len(js) == 0 {
					continue
				}
				p = js[c.Choose("delete-which", len(js))]
				w.Disk.Remove(p)
				ctx.T("external delete %s + InvalidateFile", p)
				sig = append(sig, "D"+p)
			} else {
				created++
				p = []string{"/sim/ws/", "/sim/ws/sub/"}[c.Choose("create-dir", 2)] + fmt.Sprintf("n%d.journal", created)
				w.Disk.WriteFile(p, []byte(fmt.Sprintf("; created %d\n2024-05-01 created%d\n    n%d:x  1 USD\n    n%d:y\n", created, created, created, created)))
				ctx.T("external create %s + InvalidateFile", p)
				sig = append(sig, "N"+p)
			}
			shared.InvalidateFile(p)
			delete(loadedBefore, p)
			invalidations++
		}
	}
	ctx.Stats.Add("loads", int64(loads))
	if cacheHitsNested > 0 {
		ctx.Stats.Inc("probe:cache-hit-on-file-with-includes")
	}
	if invalidations > 0 && loads >= 2 {
		ctx.Stats.Inc("probe:invalidate-between-loads")
	}
	ctx.NonTrivial = loads >= 2 && (cacheHitsNested > 0 || invalidations > 0)
	var shape []string
	for _, f := range w.Files {
		for _, d := range f.Incs {
			shape = append(shape, f.Path+">"+d.Raw)
		}
	}
	ctx.SigExtra = strings.Join(shape, "|") + "#" + strings.Join(sig, ",")
	ctx.Stats.State("c11", len(w.Files), strings.Join(shape, "|"))
}

// c11Concurrent: a load is in flight while the loader is told about a change.
func c11Concurrent(ctx *RunCtx, w *IncWorld, shared *include.Loader, limits *include.Limits, newFresh func() *include.Loader) {
	c := ctx.C
	sched := simrt.NewSched(c, ctx.Log)
	simrt.Activate(sched)
	defer simrt.Activate(nil)
	root := w.Files[c.Choose("root", len(w.Files))]
	if c.Pct("warm", 50) {
		// warm the cache sequentially first (a task run to completion)
		simrt.Go("c11:warm", func() { shared.Load(root.Path) })
		for t := sched.Tasks[len(sched.Tasks)-1]; t.State != simrt.StDone && sched.Runnable(t); {
			sched.Step(t)
		}
		ctx.T("Load(%s) to warm the cache", root.Path)
	}
	// what a fresh loader returns before the change (the in-flight load may
	// legitimately see the old or the new state of the file, never a mixture)
	beforeRes, beforeErrs := newFresh().Load(root.Path)
	var flightRes *include.ResolvedJournal
	var flightErrs []include.LoadError
	simrt.Go("c11:load", func() { flightRes, flightErrs = shared.Load(root.Path) })
	loadTask := sched.Tasks[len(sched.Tasks)-1]
	pre := c.Choose("steps-before-change", 24)
	steps := 0
	for ; steps < pre && loadTask.State != simrt.StDone && sched.Runnable(loadTask); steps++ {
		sched.Step(loadTask)
	}
	inFlight := loadTask.State != simrt.StDone
	at := ""
	if r := sched.Pending(loadTask); r != nil {
		at = r.Kind + " " + r.Site
	}
	ctx.T("Load(%s) in flight: %d steps done, parked at %q, finished=%v", root.Path, steps, at, !inFlight)
	// the change: performed by the harness (the disk belongs to the simulator);
	// telling the loader is a second task
	f := w.Files[c.Choose("edit-file", len(w.Files))]
	how := c.Weighted("tell-how", []int{6, 1, 2})
	told := ""
	switch how {
	case 0, 1:
		text := f.Text
		if c.Pct("drop-includes", 30) {
			var keep []string
			for _, l := range strings.Split(text, "\n") {
				if !strings.HasPrefix(l, "include ") {
					keep = append(keep, l)
				}
			}
			text = strings.Join(keep, "\n")
		}
		text += "\n2024-04-01 edited\n    e:x  7 USD\n    e:y\n"
		w.Disk.WriteFile(f.Path, []byte(text))
		if how == 0 {
			told = f.Path + " was rewritten and InvalidateFile ran"
			ctx.T("external write %s, then task: InvalidateFile", f.Path)
			simrt.Go("c11:invalidate", func() { shared.InvalidateFile(f.Path) })
		} else {
			told = f.Path + " was rewritten and ClearCache ran"
			ctx.T("external write %s, then task: ClearCache", f.Path)
			simrt.Go("c11:clear", func() { shared.ClearCache() })
		}
	case 2:
		nl := include.DefaultLimits()
		nl.MaxIncludeDepth = 1 + c.Choose("depth", 4)
		if c.Bool("small-size") {
			nl.MaxFileSizeBytes = int64(60 + 40*c.Choose("size", 5))
		}
		*limits = nl
		told = fmt.Sprintf("SetLimits(depth=%d size=%d) ran", nl.MaxIncludeDepth, nl.MaxFileSizeBytes)
		ctx.T("task: SetLimits(depth=%d size=%d)", nl.MaxIncludeDepth, nl.MaxFileSizeBytes)
		simrt.Go("c11:setlimits", func() { shared.SetLimits(nl) })
	}
	runTasks(c, sched, 5000)
	for _, t := range sched.Tasks {
		if t.State != simrt.StDone {
			ctx.Fail(&Violation{Property: "C11", Oracle: "liveness", Class: "stuck", Msg: fmt.Sprintf("%v did not finish (deadlock between a load and an invalidation)", t)})
			return
		}
	}
	if len(sched.Panics) > 0 {
		ctx.Fail(&Violation{Property: "C11", Oracle: "liveness", Class: "crash", Msg: fmt.Sprintf("panic in %s: %s", sched.Panics[0].Task, sched.Panics[0].Value)})
		return
	}
	// afterwards, sequentially: the shared loader must agree with a fresh one
	simrt.Activate(nil)
	res, errs := shared.Load(root.Path)
	fres, ferrs := newFresh().Load(root.Path)
	ctx.NonTrivial = true
	ctx.SigExtra = fmt.Sprintf("conc:%s:%d:%d:%s", root.Path, how, steps, at)
	if inFlight {
		ctx.Stats.Inc("probe:invalidation-inside-a-load")
	}
	if how != 2 && limits.MaxFileSizeBytes == include.DefaultLimits().MaxFileSizeBytes {
		// (with a small size limit a file that grows between the stat and the read
		// of the in-flight load is admitted with its new content: an environment
		// race, not a mixture the loader made)
		// old or new, never garbage: the result of the load that was in flight
		// equals a fresh load of the state before or after the change
		dOld := loadResultEqual(flightRes, flightErrs, beforeRes, beforeErrs)
		dNew := loadResultEqual(flightRes, flightErrs, fres, ferrs)
		if dOld != "" && dNew != "" {
			ctx.T("  IN-FLIGHT MISMATCH: vs before: %s; vs after: %s", dOld, dNew)
			ctx.Fail(&Violation{Property: "C11", Oracle: "fresh-loader", Class: "in-flight-load-neither-old-nor-new",
				Msg: fmt.Sprintf("the load of %s that was in flight (parked at %q) when %s returned neither what a fresh loader returns before the change (%s) nor after it (%s)", root.Path, at, told, dOld, dNew)})
			return
		}
		ctx.Stats.Inc("probe:in-flight-load-judged-old-or-new")
	}
	if d := loadResultEqual(res, errs, fres, ferrs); d != "" {
		ctx.T("  MISMATCH: %s", d)
		ctx.Fail(&Violation{Property: "C11", Oracle: "fresh-loader", Class: "after-concurrent-invalidation",
			Msg: fmt.Sprintf("a load of %s was in flight (parked at %q) when %s concurrently; afterwards a load on the shared loader differs from a fresh loader on the same disk: %s", root.Path, at, told, d)})
	}
}
