//go:build verifsim

// Package simwire connects the simulator's client model to the REAL server
// stack: JSON-RPC frames -> simulated byte transport -> jsonrpc2.NewStream ->
// jsonrpc2.Conn.run -> protocol.ServerHandler -> generated copy of
// cmd/hledger-lsp's serverDispatcher -> instrumented server.Server, and back
// through protocol.ClientDispatcher.
package simwire

import (
	"context"
	"encoding/json"
	"fmt"
	"io"
	"runtime/debug"
	"sort"
	"strconv"
	"strings"

	"go.lsp.dev/jsonrpc2"
	"go.lsp.dev/protocol"
	"go.uber.org/zap"

	"github.com/juev/hledger-lsp/internal/server"
	"github.com/juev/hledger-lsp/internal/verifsim/simrt"
)

// Msg is one message received from the server.
type Msg struct {
	Seq    int             // global receive order
	Step   int             // scheduler step count when received
	Task   int             // task that wrote it
	ID     string          // "" for notifications
	Method string          // "" for responses
	Params json.RawMessage // notifications / server->client requests
	Result json.RawMessage // responses
	Error  json.RawMessage // responses
}

// Session is one simulated server instance with its transport.
type Session struct {
	S     *simrt.Sched
	Srv   *server.Server
	Conn  jsonrpc2.Conn
	Disp  *simrt.Task
	Chunk func(max int) int // decides how many inbound bytes one Read returns (nil = all)

	inbound   []byte
	delivered int // total bytes handed to the dispatcher
	queued    int // total bytes ever queued
	closed    bool
	writeFail bool

	outbuf     []byte
	Out        []Msg
	seq        int
	nextID     int
	extWait    map[string]*simrt.Task // server->client request id -> task blocked on it
	extFrame   map[string]int         // id -> inbound offset at which the response frame ends
	Panics     []simrt.PanicInfo
	tokenCache any

	// counters for reach probes
	ReadCalls, SplitHeader, SplitBody int
	frameBounds                       []int // end offsets of queued frames
	hdrBounds                         []int // header end offsets
}

type rwc struct {
	s *Session
	// readFailed is touched by the dispatcher goroutine only
	readFailed *bool
}

func (r rwc) Read(p []byte) (int, error) {
	s := r.s
	n := len(p)
	resp := simrt.CallOn(s.Disp, &simrt.Req{Kind: "read", Site: "transport", CheckFirst: true,
		Ready: func() bool { return len(s.inbound) > 0 || s.closed },
		Do: func() (*simrt.Resp, bool) {
			if len(s.inbound) == 0 {
				if s.closed {
					return &simrt.Resp{Err: &simrt.ErrData{Code: 6}}, true
				}
				return nil, false
			}
			max := n
			if len(s.inbound) < max {
				max = len(s.inbound)
			}
			k := max
			if s.Chunk != nil {
				k = s.Chunk(max)
				if k < 1 {
					k = 1
				}
				if k > max {
					k = max
				}
			}
			b := make([]byte, k)
			copy(b, s.inbound[:k])
			s.inbound = s.inbound[k:]
			s.ReadCalls++
			s.noteSplit(s.delivered, s.delivered+k)
			s.delivered += k
			return &simrt.Resp{Bs: b}, true
		}})
	if resp.Err != nil {
		*r.readFailed = true
		return 0, io.EOF
	}
	copy(p, resp.Bs)
	return len(resp.Bs), nil
}

func (s *Session) noteSplit(from, to int) {
	// a read that ends strictly inside a header or a body splits a frame
	for i, fe := range s.frameBounds {
		he := s.hdrBounds[i]
		start := 0
		if i > 0 {
			start = s.frameBounds[i-1]
		}
		if to > start && to < he {
			s.SplitHeader++
		} else if to > he && to < fe {
			s.SplitBody++
		}
		_ = from
	}
}

func (r rwc) Write(p []byte) (int, error) {
	s := r.s
	// p is owned by the writing task; the scheduler copies it.  Atomic: the
	// caller holds jsonrpc2's real writeMu.
	// The scheduler must only ever read memory that no task writes again (there
	// is no happens-before edge scheduler -> task): hand over a private copy.
	cp := append([]byte(nil), p...)
	resp := simrt.EnvAtomic("write", "transport", func() *simrt.Resp {
		if s.closed || s.writeFail {
			return &simrt.Resp{Err: &simrt.ErrData{Code: 5}}
		}
		s.outbuf = append(s.outbuf, cp...)
		detach := s.parseOut()
		return &simrt.Resp{Detach: detach}
	})
	if resp.Err != nil {
		return 0, io.ErrClosedPipe
	}
	return len(p), nil
}

func (r rwc) Close() error {
	simrt.EnvAtomic("close", "transport", func() *simrt.Resp {
		r.s.closed = true
		return nil
	})
	if *r.readFailed && simrt.CurrentTask() == r.s.Disp {
		// jsonrpc2's read loop: Read failed -> fail() -> stream.Close() -> return.
		// This is the last thing the dispatcher goroutine does in the simulation.
		*r.readFailed = false
		simrt.FinishOn(r.s.Disp)
	}
	return nil
}

// parseOut extracts complete frames from outbuf.  It reports whether the last
// complete frame is a server->client request, i.e. the writing task is about
// to block in jsonrpc2.Conn.Call.
func (s *Session) parseOut() (detach bool) {
	for {
		i := strings.Index(string(s.outbuf), "\r\n\r\n")
		if i < 0 {
			return detach
		}
		hdr := string(s.outbuf[:i])
		n := -1
		for _, l := range strings.Split(hdr, "\r\n") {
			if strings.HasPrefix(l, "Content-Length:") {
				n, _ = strconv.Atoi(strings.TrimSpace(l[len("Content-Length:"):]))
			}
		}
		if n < 0 || len(s.outbuf) < i+4+n {
			return detach
		}
		body := s.outbuf[i+4 : i+4+n]
		s.outbuf = append([]byte(nil), s.outbuf[i+4+n:]...)
		var raw struct {
			ID     json.RawMessage `json:"id"`
			Method string          `json:"method"`
			Params json.RawMessage `json:"params"`
			Result json.RawMessage `json:"result"`
			Error  json.RawMessage `json:"error"`
		}
		if err := json.Unmarshal(body, &raw); err != nil {
			panic(fmt.Sprintf("simwire: server wrote a frame that is not JSON: %v: %q", err, body))
		}
		s.seq++
		m := Msg{Seq: s.seq, Step: s.S.Steps, Task: simrt.CurrentTaskID(), ID: strings.Trim(string(raw.ID), `"`), Method: raw.Method, Params: raw.Params, Result: raw.Result, Error: raw.Error}
		if string(raw.ID) == "null" {
			m.ID = ""
		}
		s.Out = append(s.Out, m)
		s.S.Log.Ev(m.Task, "out", m.Method+"#"+m.ID, strconv.FormatUint(hashb(body), 36))
		detach = false
		if m.Method != "" && m.ID != "" {
			if t := s.S.Stepping; t != nil {
				s.extWait[m.ID] = t
				detach = true
			}
		}
	}
}

func hashb(b []byte) uint64 {
	h := uint64(1469598103934665603)
	for _, c := range b {
		h ^= uint64(c)
		h *= 1099511628211
	}
	return h
}

// getDocument answers the debug-only request verif/getDocument, which reads the
// server's copy of a document on the dispatcher task, over the wire.
func getDocument(srv *server.Server, raw json.RawMessage) interface{} {
	var m struct {
		URI string `json:"uri"`
	}
	json.Unmarshal(raw, &m)
	text, ok := srv.GetDocument(protocol.DocumentURI(m.URI))
	return map[string]interface{}{"present": ok, "text": text}
}

// simClient wraps the real protocol.Client: notifications are preemption
// points; requests are external calls (the task really blocks inside
// jsonrpc2.Conn.Call until the dispatcher task delivers the response).
type simClient struct {
	protocol.Client
}

func (c *simClient) PublishDiagnostics(ctx context.Context, p *protocol.PublishDiagnosticsParams) error {
	simrt.Yield("client.publish", string(p.URI))
	return c.Client.PublishDiagnostics(ctx, p)
}
func (c *simClient) LogMessage(ctx context.Context, p *protocol.LogMessageParams) error {
	simrt.Yield("client.log", "")
	return c.Client.LogMessage(ctx, p)
}
func (c *simClient) ShowMessage(ctx context.Context, p *protocol.ShowMessageParams) error {
	simrt.Yield("client.show", "")
	return c.Client.ShowMessage(ctx, p)
}
func (c *simClient) Configuration(ctx context.Context, p *protocol.ConfigurationParams) ([]interface{}, error) {
	t := simrt.CurrentTask()
	simrt.Yield("client.configuration", "")
	r, err := c.Client.Configuration(ctx, p)
	if t != nil {
		simrt.ExtEnd(t, "client.configuration")
	}
	return r, err
}
func (c *simClient) ShowMessageRequest(ctx context.Context, p *protocol.ShowMessageRequestParams) (*protocol.MessageActionItem, error) {
	t := simrt.CurrentTask()
	r, err := c.Client.ShowMessageRequest(ctx, p)
	if t != nil {
		simrt.ExtEnd(t, "client.showMessageRequest")
	}
	return r, err
}
func (c *simClient) ApplyEdit(ctx context.Context, p *protocol.ApplyWorkspaceEditParams) (bool, error) {
	t := simrt.CurrentTask()
	r, err := c.Client.ApplyEdit(ctx, p)
	if t != nil {
		simrt.ExtEnd(t, "client.applyEdit")
	}
	return r, err
}
func (c *simClient) RegisterCapability(ctx context.Context, p *protocol.RegistrationParams) error {
	t := simrt.CurrentTask()
	err := c.Client.RegisterCapability(ctx, p)
	if t != nil {
		simrt.ExtEnd(t, "client.registerCapability")
	}
	return err
}
func (c *simClient) WorkspaceFolders(ctx context.Context) ([]protocol.WorkspaceFolder, error) {
	t := simrt.CurrentTask()
	r, err := c.Client.WorkspaceFolders(ctx)
	if t != nil {
		simrt.ExtEnd(t, "client.workspaceFolders")
	}
	return r, err
}

// Start builds a server the way cmd/hledger-lsp's main does and hands the read
// loop to the scheduler.  Must be called on the scheduler goroutine with s
// activated.
func Start(s *simrt.Sched) *Session {
	sess := &Session{S: s, extWait: map[string]*simrt.Task{}, extFrame: map[string]int{}}
	sess.tokenCache = server.VerifFreshTokenCache()
	sess.Activate()
	srv := server.NewServer()
	sess.Srv = srv
	// buildHandler is generated by the instrumenter: cmd/hledger-lsp's own
	// newHandler(srv) when main.go has one, else ServerHandler over the dispatcher
	inner := buildHandler(srv)
	handler := func(ctx context.Context, reply jsonrpc2.Replier, req jsonrpc2.Request) (err error) {
		defer func() {
			if r := recover(); r != nil {
				pi := simrt.PanicInfo{Task: "dispatcher:" + req.Method(), Value: fmt.Sprint(r), Stack: simrt.CleanStack(string(debug.Stack()))}
				simrt.EnvAtomic("panic", req.Method(), func() *simrt.Resp {
					sess.Panics = append(sess.Panics, pi)
					return nil
				})
				err = nil
			}
		}()
		if req.Method() == "verif/getDocument" {
			return reply(ctx, getDocument(srv, req.Params()), nil)
		}
		// Server methods that cmd/hledger-lsp does not wire into its dispatcher
		// (code actions) are part of the server's public API and read the state
		// that background tasks write; they are driven through debug methods,
		// on the dispatcher task like any request.
		if req.Method() == "verif/codeAction" {
			if h, ok := interface{}(srv).(interface {
				CodeAction(context.Context, *protocol.CodeActionParams) ([]protocol.CodeAction, error)
			}); ok {
				var p protocol.CodeActionParams
				json.Unmarshal(req.Params(), &p)
				r, err := h.CodeAction(ctx, &p)
				return reply(ctx, r, err)
			}
			return reply(ctx, nil, nil)
		}
		return inner(ctx, reply, req)
	}
	stream := jsonrpc2.NewStream(rwc{s: sess, readFailed: new(bool)})
	conn := jsonrpc2.NewConn(stream)
	sess.Conn = conn
	srv.SetClient(&simClient{Client: protocol.ClientDispatcher(conn, zap.NewNop())})
	sess.Disp = s.NewExternalTask("dispatcher")
	conn.Go(context.Background(), handler)
	s.Adopt(sess.Disp)
	return sess
}

// Activate makes this session's process-global state current (the semantic
// token cache is a package variable of the server).
func (s *Session) Activate() {
	// written only when it actually changes: in the -race build there is one
	// session per run, so the package variable is written before the session's
	// goroutines exist and never again (no scheduler -> task edge is needed).
	simrt.ActivateGlobals(s)
	if activeSession != s {
		server.VerifSwapTokenCache(s.tokenCache)
		activeSession = s
	}
}

var activeSession *Session

func (s *Session) enqueue(body []byte) {
	hdr := fmt.Sprintf("Content-Length: %d\r\n\r\n", len(body))
	s.hdrBounds = append(s.hdrBounds, s.queued+len(hdr))
	s.inbound = append(s.inbound, hdr...)
	s.inbound = append(s.inbound, body...)
	s.queued += len(hdr) + len(body)
	s.frameBounds = append(s.frameBounds, s.queued)
}

// Request queues a client->server request and returns its id.
func (s *Session) Request(method string, params any) string {
	s.nextID++
	id := s.nextID
	b, err := json.Marshal(map[string]any{"jsonrpc": "2.0", "id": id, "method": method, "params": params})
	if err != nil {
		panic(err)
	}
	s.enqueue(b)
	s.S.Log.Ev(-1, "in-req", method+"#"+strconv.Itoa(id), strconv.FormatUint(hashb(b), 36))
	return strconv.Itoa(id)
}

// Notify queues a client->server notification.
func (s *Session) Notify(method string, params any) {
	b, err := json.Marshal(map[string]any{"jsonrpc": "2.0", "method": method, "params": params})
	if err != nil {
		panic(err)
	}
	s.enqueue(b)
	s.S.Log.Ev(-1, "in-ntf", method, strconv.FormatUint(hashb(b), 36))
}

// Respond queues the client's answer to a server->client request.
func (s *Session) Respond(id string, result any, errObj any) {
	m := map[string]any{"jsonrpc": "2.0", "id": json.RawMessage(id)}
	if errObj != nil {
		m["error"] = errObj
	} else {
		m["result"] = result
	}
	b, err := json.Marshal(m)
	if err != nil {
		panic(err)
	}
	s.enqueue(b)
	s.extFrame[id] = s.queued
	s.S.Log.Ev(-1, "in-resp", "#"+id, strconv.FormatUint(hashb(b), 36))
}

// RawBytes queues arbitrary bytes (malformed frames).
func (s *Session) RawBytes(b []byte) {
	s.inbound = append(s.inbound, b...)
	s.queued += len(b)
}

// Close closes the transport from the client side.
func (s *Session) Close() { s.closed = true }

// Closed reports whether the transport is closed.
func (s *Session) Closed() bool { return s.closed }

// InboundPending reports whether undelivered client bytes remain.
func (s *Session) InboundPending() bool { return len(s.inbound) > 0 }

// Settle must be called after every step of the dispatcher task: a task that
// blocked in a server->client request whose response frame has been completely
// consumed by the dispatcher has been (really) woken; wait until it is back
// under the scheduler's control.
func (s *Session) Settle() {
	// The dispatcher has consumed every delivered byte only when it is back in
	// the transport's Read (bufio refills only when its buffer is empty) or gone.
	if s.Disp.State != simrt.StDone {
		r := s.S.Pending(s.Disp)
		if r == nil || r.Kind != "read" {
			return
		}
	}
	ids := make([]string, 0, len(s.extFrame))
	for id := range s.extFrame {
		ids = append(ids, id)
	}
	sort.Strings(ids)
	for _, id := range ids {
		end := s.extFrame[id]
		if end <= s.delivered {
			if t, ok := s.extWait[id]; ok {
				s.S.AwaitExt(t)
				s.S.Log.Ev(t.ID, "ext-return", "#"+id, "")
				delete(s.extWait, id)
			}
			delete(s.extFrame, id)
		}
	}
}

// PendingServerRequests lists ids of server->client requests not yet answered.
func (s *Session) PendingServerRequests() []string {
	var out []string
	for _, m := range s.Out {
		if m.Method != "" && m.ID != "" {
			if _, ok := s.extWait[m.ID]; ok {
				if _, answered := s.extFrame[m.ID]; !answered {
					out = append(out, m.ID)
				}
			}
		}
	}
	return out
}

// Response returns the response to request id, if received.
func (s *Session) Response(id string) *Msg {
	for i := range s.Out {
		if s.Out[i].Method == "" && s.Out[i].ID == id {
			return &s.Out[i]
		}
	}
	return nil
}
