// Package simclock is the simulated wall clock.  time.Now (and, should a
// change introduce them, Sleep/After/Since) of the system under test are
// rewritten to this package.
package simclock

import (
	"time"

	"github.com/juev/hledger-lsp/internal/verifsim/simrt"
)

// Clock is owned by the scheduler goroutine.
type Clock struct {
	Nanos int64 // current simulated instant, Unix nanoseconds (UTC)
	Reads int
}

var Active = &Clock{Nanos: time.Date(2024, 6, 15, 12, 0, 0, 0, time.UTC).UnixNano()}

func Now() time.Time {
	r := simrt.Env("clock.now", "", func() *simrt.Resp {
		Active.Reads++
		return &simrt.Resp{I: Active.Nanos}
	})
	return time.Unix(0, r.I).UTC()
}

func Since(t time.Time) time.Duration { return Now().Sub(t) }
func Until(t time.Time) time.Duration { return t.Sub(Now()) }

// Sleep advances the simulated clock; it never blocks in real time.
func Sleep(d time.Duration) {
	simrt.Env("clock.sleep", "", func() *simrt.Resp {
		if d > 0 {
			Active.Nanos += int64(d)
		}
		return nil
	})
}
