// Package simclock is the simulated wall clock.  time.Now (and, should a
// change introduce them, Sleep/After/Since) of the system under test are
// rewritten to this package.
package simclock

import (
	"time"

	"github.com/juev/hledger-lsp/internal/verifsim/simrt"
)

// Clock is owned by the scheduler goroutine.
type Clock struct {
	Nanos int64 // current simulated instant, Unix nanoseconds (UTC)
	Reads int

	timers []*pendingTimer
	nextID int
}

var Active = &Clock{Nanos: time.Date(2024, 6, 15, 12, 0, 0, 0, time.UTC).UnixNano()}

func Now() time.Time {
	r := simrt.Env("clock.now", "", func() *simrt.Resp {
		Active.Reads++
		return &simrt.Resp{I: Active.Nanos}
	})
	return time.Unix(0, r.I).UTC()
}

func Since(t time.Time) time.Duration { return Now().Sub(t) }
func Until(t time.Time) time.Duration { return t.Sub(Now()) }

// Sleep advances the simulated clock; it never blocks in real time.
func Sleep(d time.Duration) {
	simrt.Env("clock.sleep", "", func() *simrt.Resp {
		if d > 0 {
			Active.Nanos += int64(d)
		}
		return nil
	})
}

// ---- timers -----------------------------------------------------------------------
//
// The repository has no timers today; a change may add one (a debounce before
// analysing, say).  time.AfterFunc and *time.Timer are rewritten to these: the
// callback runs as a simulator task when the simulated clock reaches its
// instant, and the clock reaches it either because the driver lets "time pass"
// between two scheduler steps or because nothing else can run (discrete-event
// jump to the next timer).

type pendingTimer struct {
	id     int
	at     int64
	fn     func()
	active bool
}

// Timer replaces time.Timer for timers made by AfterFunc.
type Timer struct {
	id int // the clock that owns it is the one of the server instance that is active when it is used
}

// AfterFunc replaces time.AfterFunc.
func AfterFunc(d time.Duration, f func()) *Timer {
	r := simrt.Env("timer.start", "", func() *simrt.Resp {
		c := Active
		c.nextID++
		at := c.Nanos
		if d > 0 {
			at += int64(d)
		}
		c.timers = append(c.timers, &pendingTimer{id: c.nextID, at: at, fn: f, active: true})
		return &simrt.Resp{I: int64(c.nextID)}
	})
	return &Timer{id: int(r.I)}
}

// Stop prevents the timer from firing; it reports whether the call stopped it.
func (t *Timer) Stop() bool {
	r := simrt.Env("timer.stop", "", func() *simrt.Resp {
		for _, p := range Active.timers {
			if p.id == t.id && p.active {
				p.active = false
				return &simrt.Resp{B: true}
			}
		}
		return &simrt.Resp{B: false}
	})
	return r.B
}

// Reset changes the timer to fire after d; it reports whether it was active.
func (t *Timer) Reset(d time.Duration) bool {
	r := simrt.Env("timer.reset", "", func() *simrt.Resp {
		for _, p := range Active.timers {
			if p.id == t.id {
				was := p.active
				p.active = true
				p.at = Active.Nanos
				if d > 0 {
					p.at += int64(d)
				}
				return &simrt.Resp{B: was}
			}
		}
		return &simrt.Resp{B: false}
	})
	return r.B
}

// NextTimer is the instant of the earliest active timer (scheduler side).
func (c *Clock) NextTimer() (int64, bool) {
	var at int64
	ok := false
	for _, p := range c.timers {
		if p.active && (!ok || p.at < at) {
			at, ok = p.at, true
		}
	}
	return at, ok
}

// TakeDue removes and returns the callbacks of the active timers that are due,
// in (instant, creation) order (scheduler side).
func (c *Clock) TakeDue() []func() {
	// (fired and stopped timers stay registered: Reset may arm them again)
	var due []*pendingTimer
	for _, p := range c.timers {
		if p.active && p.at <= c.Nanos {
			due = append(due, p)
		}
	}
	for i := 1; i < len(due); i++ {
		for j := i; j > 0 && (due[j].at < due[j-1].at || due[j].at == due[j-1].at && due[j].id < due[j-1].id); j-- {
			due[j], due[j-1] = due[j-1], due[j]
		}
	}
	var out []func()
	for _, p := range due {
		p.active = false
		out = append(out, p.fn)
	}
	return out
}
