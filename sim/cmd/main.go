//go:build verifsim

package main

import (
	"fmt"

	"github.com/juev/hledger-lsp/internal/include"
	"github.com/juev/hledger-lsp/internal/verifsim/simfs"
)

func main() {
	d := simfs.NewDisk()
	d.WriteFile("/sim/ws/main.journal", []byte("include a.journal\ninclude b.journal\n"))
	d.WriteFile("/sim/ws/a.journal", []byte("include c.journal\n"))
	d.WriteFile("/sim/ws/b.journal", []byte("include c.journal\n"))
	d.WriteFile("/sim/ws/c.journal", []byte("2024-01-01 x\n  a:b  1 USD\n  c:d\n"))
	simfs.Active = d
	l := include.NewLoader()
	r, errs := l.Load("/sim/ws/main.journal")
	fmt.Println(r.FileOrder, errs)
}
