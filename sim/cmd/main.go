//go:build verifsim

// Command verifsim (built as simrun) runs the simulation engines.
//
//	simrun check  -engine E -prop C13 -tier quick -seed 1 -workers 16 -runs N -seconds T -evidence f -known f -replays dir
//	simrun worker -engine E ... (internal)
//	simrun replay -file replay.json [-trace]
//
// Exit status: 0 property held on everything explored; 1 violation (a line
// "VIOLATION property=<id> replay=<path>" per violation); 2 harness trouble.
package main

import (
	"bufio"
	"encoding/json"
	"errors"
	"flag"
	"fmt"
	"os"
	"os/exec"
	"path/filepath"
	"runtime"
	"runtime/debug"
	"sort"
	"strconv"
	"strings"
	"sync"
	"sync/atomic"
	"syscall"
	"time"

	"github.com/juev/hledger-lsp/internal/verifsim/engine"
	"github.com/juev/hledger-lsp/internal/verifsim/simrt"
)

type runResult struct {
	Idx         uint64              `json:"idx"`
	Param       int                 `json:"param"`
	Choices     []int               `json:"choices"`
	Violations  []*engine.Violation `json:"violations"`
	Fingerprint string              `json:"fingerprint"`
	Sig         string              `json:"sig"`
	NonTrivial  bool                `json:"nontrivial"`
	Trace       []string            `json:"trace,omitempty"`
	Steps       int                 `json:"steps"`
	Overrun     int                 `json:"overrun"`
	LogLines    []string            `json:"-"`
	FromRace    bool                `json:"-"`
}

type opts struct {
	tier  string
	race  bool
	known []engine.KnownFinding
}

func runOne(e engine.Engine, c *simrt.Chooser, param int, o opts, stats *engine.Stats, keep bool) *runResult {
	log := simrt.NewLog(keep)
	simrt.ResetGlobals()
	ctx := &engine.RunCtx{C: c, Log: log, Tier: o.tier, Race: o.race, Stats: stats, Known: o.known, KeepTrace: keep, Param: param}
	func() {
		defer func() {
			if r := recover(); r != nil {
				// a panic on the harness goroutine is harness trouble unless the
				// engine converted it; report loudly.
				buf := make([]byte, 1<<16)
				n := runtime.Stack(buf, false)
				if panicFromCode(string(buf[:n])) {
					// engines that call a component directly (loader, workspace) run it
					// on this goroutine: a panic raised in the code under test, or by a
					// simulated lock on its behalf, is a crash of that code
					ctx.Fail(&engine.Violation{Property: strings.ToUpper(e.Name()), Oracle: "invariant", Class: "crash",
						Msg: fmt.Sprintf("panic in the code under test: %v\n%s", r, firstFrames(string(buf[:n]), 12))})
					return
				}
				fmt.Fprintf(os.Stderr, "HARNESS PANIC in engine %s: %v\n%s\n", e.Name(), r, buf[:n])
				os.Exit(2)
			}
		}()
		e.Run(ctx)
	}()
	res := &runResult{Param: param, Choices: append([]int(nil), c.Rec...), Violations: ctx.Violations,
		Fingerprint: log.Fingerprint(), Sig: log.Signature() + ctx.SigExtra, NonTrivial: ctx.NonTrivial, Steps: log.N, Overrun: c.Overrun}
	if keep {
		res.Trace = ctx.Trace
		res.LogLines = log.Lines
	}
	return res
}

// panicFromCode reports whether the innermost frame of a recovered panic that
// is neither the runtime's nor a simulated primitive's belongs to the code
// under test (any package of the module outside the simulator).
func panicFromCode(stack string) bool {
	seenPanic := false
	for _, l := range strings.Split(stack, "\n") {
		if l == "" || l[0] == '\t' || strings.HasPrefix(l, "goroutine ") {
			continue
		}
		if !seenPanic {
			seenPanic = strings.HasPrefix(l, "panic(")
			continue
		}
		switch {
		case strings.HasPrefix(l, "runtime."), strings.HasPrefix(l, "panic("), strings.HasPrefix(l, "sync."), strings.HasPrefix(l, "internal/"):
			continue
		case strings.Contains(l, "/internal/verifsim/simsync."), strings.Contains(l, "/internal/verifsim/simrt.MapSeq"):
			continue
		}
		return strings.HasPrefix(l, "github.com/juev/hledger-lsp/") && !strings.Contains(l, "/internal/verifsim/") && !strings.Contains(l, "/cmd/verifsim")
	}
	return false
}

func firstFrames(stack string, n int) string {
	var out []string
	seenPanic := false
	for _, l := range strings.Split(stack, "\n") {
		if !seenPanic {
			seenPanic = strings.HasPrefix(l, "panic(")
			continue
		}
		if l != "" && l[0] != '\t' {
			if i := strings.LastIndex(l, "("); i > 0 {
				l = l[:i]
			}
			out = append(out, l)
			if len(out) == n {
				break
			}
		}
	}
	return strings.Join(out, " <- ")
}

func main() {
	// unbounded recursion in the code under test should die in a fraction of a
	// second, not after filling the default 1 GB
	debug.SetMaxStack(96 << 20)
	if len(os.Args) < 2 {
		fmt.Fprintln(os.Stderr, "usage: simrun check|worker|replay ...")
		os.Exit(2)
	}
	switch os.Args[1] {
	case "check":
		os.Exit(cmdCheck(os.Args[2:]))
	case "worker":
		os.Exit(cmdWorker(os.Args[2:]))
	case "replay":
		os.Exit(cmdReplay(os.Args[2:]))
	case "fatalrun":
		os.Exit(cmdFatalRun(os.Args[2:]))
	case "fingerprints":
		os.Exit(cmdFingerprints(os.Args[2:]))
	case "engines":
		fmt.Println(strings.Join(engine.Names(), "\n"))
	default:
		fmt.Fprintln(os.Stderr, "unknown mode", os.Args[1])
		os.Exit(2)
	}
}

// ---- worker -------------------------------------------------------------------

type workerOut struct {
	Start *uint64       `json:"start,omitempty"`
	Fail  *runResult    `json:"fail,omitempty"`
	Stats *engine.Stats `json:"stats,omitempty"`
	Runs  int64         `json:"runs,omitempty"`
	Enum  int64         `json:"enum,omitempty"`
}

func cmdWorker(args []string) int {
	fs := flag.NewFlagSet("worker", flag.ExitOnError)
	eng := fs.String("engine", "", "")
	tier := fs.String("tier", "quick", "")
	seed := fs.Uint64("seed", 1, "")
	from := fs.Uint64("from", 0, "first run index")
	step := fs.Uint64("step", 1, "index stride")
	runs := fs.Uint64("runs", 100, "max runs for this worker")
	seconds := fs.Float64("seconds", 60, "wall budget")
	known := fs.String("known", "", "")
	enumFrom := fs.Int("enum-from", 0, "")
	enumStep := fs.Int("enum-step", 1, "")
	enumN := fs.Int("enum-n", 0, "")
	maxFail := fs.Int("maxfail", 40, "")
	fs.Parse(args)
	e := engine.Get(*eng)
	if e == nil {
		fmt.Fprintln(os.Stderr, "no such engine", *eng)
		return 2
	}
	o := opts{tier: *tier, race: simrt.RaceBuild, known: engine.LoadKnown(*known)}
	stats := engine.NewStats()
	out := json.NewEncoder(os.Stdout)
	deadline := time.Now().Add(time.Duration(*seconds * float64(time.Second)))
	fails := 0
	var nruns, nenum int64
	emit := func(res *runResult, idx uint64) {
		if res.NonTrivial {
			stats.Sigs[hash(res.Sig)] = struct{}{}
		}
		if len(res.Violations) > 0 && fails < *maxFail {
			fails++
			res.Idx = idx
			out.Encode(workerOut{Fail: res})
		}
	}
	for p := *enumFrom; p < *enumN; p += *enumStep {
		stream := uint64(p)
		if es, ok := e.(interface{ EnumStream(int) uint64 }); ok {
			stream = es.EnumStream(p)
		}
		// (announced like the seeded runs: the parent's no-progress watchdog
		// listens to these lines)
		eidx := uint64(1<<40) + uint64(p)
		out.Encode(workerOut{Start: &eidx})
		c := simrt.NewSearchChooser(*seed, uint64(1<<40)+stream)
		res := runOne(e, c, p, o, stats, false)
		nenum++
		emit(res, uint64(1<<40)+uint64(p))
	}
	// sample collection: keep traces for a few runs
	var sampleRuns []uint64
	for i := uint64(0); i < *runs; i++ {
		if time.Now().After(deadline) {
			break
		}
		idx := *from + i**step
		// the parent learns which run a worker was in when it died (race report
		// with halt_on_error, fatal runtime error)
		out.Encode(workerOut{Start: &idx})
		c := simrt.NewSearchChooser(*seed, idx)
		res := runOne(e, c, -1, o, stats, false)
		nruns++
		emit(res, idx)
		if res.NonTrivial && len(sampleRuns) < 3 && *from == 0 {
			sampleRuns = append(sampleRuns, idx)
		}
	}
	for _, idx := range sampleRuns {
		c := simrt.NewSearchChooser(*seed, idx)
		scratch := engine.NewStats()
		res := runOne(e, c, -1, o, scratch, true)
		stats.Samples = append(stats.Samples, engine.Sample{Kind: "seeded", Run: idx, Steps: res.Steps, Trace: res.Trace})
	}
	stats.Flatten()
	out.Encode(workerOut{Stats: stats, Runs: nruns, Enum: nenum})
	return 0
}

func hash(s string) uint64 {
	h := uint64(1469598103934665603)
	for i := 0; i < len(s); i++ {
		h ^= uint64(s[i])
		h *= 1099511628211
	}
	return h
}

// ---- replay --------------------------------------------------------------------

type replayFile struct {
	Property    string         `json:"property"`
	Engine      string         `json:"engine"`
	Oracle      string         `json:"oracle"`
	Class       string         `json:"class"`
	Msg         string         `json:"msg"`
	Witness     map[string]any `json:"witness,omitempty"`
	Seed        uint64         `json:"seed"`
	Run         uint64         `json:"run"`
	Param       int            `json:"param"`
	Tier        string         `json:"tier"`
	Race        bool           `json:"race_build"`
	Choices     []int          `json:"choices"`
	Fingerprint string         `json:"fingerprint"`
	Trace       []string       `json:"trace"`
	RepoHead    string         `json:"repo_head,omitempty"`
	OrigChoices int            `json:"original_choice_count"`
	// History, for race reports that only appear after the runs that preceded
	// them in their worker process (the race detector's bounded per-goroutine
	// history makes detection depend on what the process did before): the
	// worker's index sequence from, from+step, ... up to Run.
	History *workerHistory `json:"worker_history,omitempty"`
	// Fatal: the run ends in a fatal error of the Go runtime (stack overflow by
	// unbounded recursion, ...) that kills the process; it is replayed in a
	// child process, and "reproduced" means the child dies the same way.
	Fatal bool `json:"fatal,omitempty"`
}

type workerHistory struct {
	From  uint64 `json:"from"`
	Step  int    `json:"step"`
	Count uint64 `json:"count"`
}

func cmdReplay(args []string) int {
	fs := flag.NewFlagSet("replay", flag.ExitOnError)
	file := fs.String("file", "", "")
	trace := fs.Bool("trace", false, "print the event log")
	known := fs.String("known", "", "")
	quiet := fs.Bool("json", false, "print a JSON result only")
	fs.Parse(args)
	b, err := os.ReadFile(*file)
	if err != nil {
		fmt.Fprintln(os.Stderr, err)
		return 2
	}
	var rf replayFile
	if err := json.Unmarshal(b, &rf); err != nil {
		fmt.Fprintln(os.Stderr, "replay file:", err)
		return 2
	}
	e := engine.Get(rf.Engine)
	if e == nil {
		fmt.Fprintln(os.Stderr, "no such engine", rf.Engine)
		return 2
	}
	if rf.History != nil && simrt.RaceBuild {
		// a race report that needs its process history: repeat the worker's runs
		self, _ := os.Executable()
		if replayHistory(self, rf.Engine, rf.Tier, rf.Seed, *known, rf.History, rf.Run) {
			if !*quiet {
				for _, l := range rf.Trace {
					fmt.Println("  " + l)
				}
				fmt.Printf("the -race binary reports a data race at run %d again after repeating the %d preceding runs of its worker\n", rf.Run, rf.History.Count-1)
			}
			return 66
		}
		if !*quiet {
			fmt.Println("replay did not reproduce the recorded race report on this tree")
		}
		return 0
	}
	if rf.Fatal && os.Getenv("VERIF_FATAL_CHILD") == "" {
		self, _ := os.Executable()
		c := exec.Command(self, "replay", "-file", *file, "-json", "-known", *known)
		c.Env = append(os.Environ(), "VERIF_FATAL_CHILD=1")
		var eb strings.Builder
		c.Stderr = &eb
		err := runLimited(c, hangReplayLimit)
		if rf.Class == "hang" {
			if err == errTimedOut {
				if !*quiet {
					fmt.Printf("the child process replaying the choice list did not finish within %v again (a run takes milliseconds)\n", hangReplayLimit)
					fmt.Printf("VIOLATION property=%s replay=%s\n", rf.Property, *file)
				}
				return 1
			}
			if !*quiet {
				fmt.Println("replay did not reproduce the recorded hang on this tree")
			}
			return 0
		}
		got, fromCode := fatalClass(eb.String())
		if err != nil && fromCode && "fatal-"+sanitize(got) == rf.Class {
			if !*quiet {
				fmt.Printf("the child process replaying the choice list died again: fatal error: %s\n%s\n", got, fatalTop(eb.String()))
				fmt.Printf("VIOLATION property=%s replay=%s\n", rf.Property, *file)
			}
			return 1
		}
		if !*quiet {
			fmt.Println("replay did not reproduce the recorded fatal error on this tree")
		}
		return 0
	}
	o := opts{tier: rf.Tier, race: simrt.RaceBuild, known: engine.LoadKnown(*known)}
	c := simrt.NewReplayChooser(rf.Choices)
	res := runOne(e, c, rf.Param, o, engine.NewStats(), true)
	same := false
	for _, v := range res.Violations {
		if v.Property == rf.Property && v.Oracle == rf.Oracle && v.Class == rf.Class {
			same = true
		}
	}
	if *quiet {
		json.NewEncoder(os.Stdout).Encode(map[string]any{"same": same, "fingerprint": res.Fingerprint, "violations": res.Violations})
	} else {
		for _, l := range res.Trace {
			fmt.Println("  " + l)
		}
		if *trace {
			fmt.Println("fingerprint", res.Fingerprint)
		}
		for _, v := range res.Violations {
			fmt.Printf("violation %s: %s\n", v.Key(), v.Msg)
		}
	}
	if same {
		if !*quiet {
			fmt.Printf("VIOLATION property=%s replay=%s\n", rf.Property, *file)
		}
		if rf.Fingerprint != "" && rf.Fingerprint != res.Fingerprint && !*quiet {
			fmt.Printf("note: event-log fingerprint differs from the recorded one (%s vs %s): the tree changed since the replay file was written\n", res.Fingerprint, rf.Fingerprint)
		}
		return 1
	}
	if !*quiet {
		fmt.Println("replay did not reproduce the recorded violation on this tree")
	}
	return 0
}

// ---- check ----------------------------------------------------------------------

func cmdCheck(args []string) int {
	fs := flag.NewFlagSet("check", flag.ExitOnError)
	eng := fs.String("engine", "", "")
	prop := fs.String("prop", "", "")
	tier := fs.String("tier", "quick", "")
	seed := fs.Uint64("seed", 1, "")
	workers := fs.Int("workers", runtime.NumCPU(), "")
	runs := fs.Uint64("runs", 2000, "total seeded runs")
	seconds := fs.Float64("seconds", 60, "wall budget for the search phase")
	evidence := fs.String("evidence", "", "")
	known := fs.String("known", "", "")
	replays := fs.String("replays", "", "directory for replay files")
	level := fs.String("level", "exploration", "")
	raceBin := fs.String("racebin", "", "second binary built with -race")
	raceRuns := fs.Uint64("raceruns", 0, "")
	raceSeconds := fs.Float64("raceseconds", 0, "")
	repoHead := fs.String("repohead", "", "")
	instrReport := fs.String("instr", "", "instrument_report.json")
	fs.Parse(args)
	start := time.Now()
	e := engine.Get(*eng)
	if e == nil {
		fmt.Fprintln(os.Stderr, "no such engine:", *eng, "have:", engine.Names())
		return 2
	}
	self, _ := os.Executable()
	kf := engine.LoadKnown(*known)

	total := engine.NewStats()
	var fails []*runResult
	var nruns, nenum int64
	var mu sync.Mutex
	var wg sync.WaitGroup
	trouble := false
	var raceFails []*raceFail
	var fatalFails []*fatalFail
	launch := func(bin string, w, nw int, runs uint64, secs float64, enumN int, tag string) {
		defer wg.Done()
		per := (runs + uint64(nw) - 1) / uint64(nw)
		from := uint64(w)
		deadline := time.Now().Add(time.Duration(secs * float64(time.Second)))
		for relaunch := 0; relaunch < 6 && per > 0; relaunch++ {
			left := time.Until(deadline).Seconds()
			if left <= 0 {
				return
			}
			a := []string{"worker", "-engine", *eng, "-tier", *tier, "-seed", fmt.Sprint(*seed), "-from", fmt.Sprint(from), "-step", fmt.Sprint(nw),
				"-runs", fmt.Sprint(per), "-seconds", fmt.Sprint(left), "-known", *known,
				"-enum-from", fmt.Sprint(w), "-enum-step", fmt.Sprint(nw), "-enum-n", fmt.Sprint(enumN)}
			cmd := exec.Command(bin, a...)
			var errBuf strings.Builder
			cmd.Stderr = &errBuf
			cmd.Env = append(os.Environ(), "GORACE=halt_on_error=1 exitcode=66")
			stdout, _ := cmd.StdoutPipe()
			if err := cmd.Start(); err != nil {
				fmt.Fprintln(os.Stderr, "worker start:", err)
				mu.Lock()
				trouble = true
				mu.Unlock()
				return
			}
			sc := bufio.NewScanner(stdout)
			sc.Buffer(make([]byte, 1<<20), 1<<30)
			lastStart := uint64(0)
			started := uint64(0)
			inEnum := false
			var lastOut atomic.Int64
			lastOut.Store(time.Now().UnixNano())
			var hung atomic.Bool
			wdDone := make(chan struct{})
			go func() {
				tk := time.NewTicker(time.Second)
				defer tk.Stop()
				for {
					select {
					case <-wdDone:
						return
					case <-tk.C:
						if time.Since(time.Unix(0, lastOut.Load())) > noProgress && !hung.Load() {
							hung.Store(true)
							cmd.Process.Signal(syscall.SIGQUIT) // goroutine dump on stderr, then exit
							time.AfterFunc(5*time.Second, func() { cmd.Process.Kill() })
						}
					}
				}
			}()
			for sc.Scan() {
				lastOut.Store(time.Now().UnixNano())
				var wo workerOut
				if err := json.Unmarshal(sc.Bytes(), &wo); err != nil {
					continue
				}
				if wo.Start != nil {
					if *wo.Start >= 1<<40 {
						inEnum = true // an enumerated case: only the watchdog is interested
					} else {
						inEnum = false
						lastStart = *wo.Start
						started++
					}
					continue
				}
				mu.Lock()
				if wo.Fail != nil {
					// a functional violation seen by the -race binary (which builds no
					// reference servers and therefore runs past the points where the
					// plain binary stops) is re-executed the same way
					wo.Fail.FromRace = tag != ""
					fails = append(fails, wo.Fail)
				}
				if wo.Stats != nil {
					if tag != "" {
						pref := engine.NewStats()
						for k, v := range wo.Stats.Counters {
							pref.Counters[tag+k] = v
						}
						pref.SigList = wo.Stats.SigList
						total.Merge(pref)
						total.Counters[tag+"runs"] += wo.Runs
					} else {
						total.Merge(wo.Stats)
						nruns += wo.Runs
						nenum += wo.Enum
					}
				}
				mu.Unlock()
			}
			err := cmd.Wait()
			close(wdDone)
			if err == nil {
				return
			}
			if hung.Load() {
				if fromCode, _ := hangFromCode(errBuf.String()); fromCode && started > 0 && !inEnum {
					mu.Lock()
					fatalFails = append(fatalFails, &fatalFail{Idx: lastStart, Class: hangClass, Report: errBuf.String(), Hang: true})
					if tag == "" {
						nruns += int64(started)
					}
					mu.Unlock()
					enumN = 0
					if started >= per {
						return
					}
					per -= started
					from = lastStart + uint64(nw)
					continue
				}
				fmt.Fprintf(os.Stderr, "worker %d (%s) made no progress for %v at run %d and was killed\n%s", w, filepath.Base(bin), noProgress, lastStart, trunc(errBuf.String(), 20000))
				mu.Lock()
				trouble = true
				mu.Unlock()
				return
			}
			if ee, ok := err.(*exec.ExitError); ok && ee.ExitCode() == 66 && tag != "" && strings.Contains(errBuf.String(), "DATA RACE") {
				mu.Lock()
				raceFails = append(raceFails, &raceFail{Idx: lastStart, Report: errBuf.String(), From: from, Step: nw, Count: started})
				total.Counters[tag+"runs"] += int64(started)
				mu.Unlock()
				// go on after the run that died
				enumN = 0
				if started >= per {
					return
				}
				per -= started
				from = lastStart + uint64(nw)
				continue
			}
			if class, fromCode := fatalClass(errBuf.String()); fromCode && started > 0 && !inEnum {
				// the code under test ran into a fatal runtime error: a finding about
				// the code, confirmed and reported below; go on after that run
				mu.Lock()
				fatalFails = append(fatalFails, &fatalFail{Idx: lastStart, Class: class, Report: errBuf.String()})
				if tag == "" {
					nruns += int64(started)
				}
				mu.Unlock()
				enumN = 0
				if started >= per {
					return
				}
				per -= started
				from = lastStart + uint64(nw)
				continue
			}
			fmt.Fprintf(os.Stderr, "worker %d (%s) exited: %v\n%s", w, filepath.Base(bin), err, trunc(errBuf.String(), 20000))
			mu.Lock()
			trouble = true
			mu.Unlock()
			return
		}
	}
	enumN := e.Enumerated(*tier)
	for w := 0; w < *workers; w++ {
		wg.Add(1)
		go launch(self, w, *workers, *runs, *seconds, enumN, "")
	}
	wg.Wait()
	if *raceBin != "" && *raceRuns > 0 {
		for w := 0; w < *workers; w++ {
			wg.Add(1)
			go launch(*raceBin, w, *workers, *raceRuns, *raceSeconds, 0, "race:")
		}
		wg.Wait()
	}
	if trouble && len(fatalFails) == 0 {
		fmt.Fprintln(os.Stderr, "harness trouble: a worker failed (see above)")
		return 2
	}
	if trouble {
		// some workers died or hung in a way that could be pinned on the code
		// under test, others not: the former are confirmed and reported below,
		// and nothing else of this check run is triaged
		fmt.Fprintln(os.Stderr, "note: a worker failed (see above); fatal errors / hangs of the code under test were seen as well and are confirmed first")
		fails = nil
		raceFails = nil
	}
	searchWall := time.Since(start).Seconds()

	// ---- triage failures: one representative per violation key
	byKey := map[string]*runResult{}
	for _, f := range fails {
		for _, v := range f.Violations {
			k := v.Key()
			if old, ok := byKey[k]; !ok || len(f.Choices) < len(old.Choices) {
				byKey[k] = f
			}
		}
	}
	keys := make([]string, 0, len(byKey))
	for k := range byKey {
		keys = append(keys, k)
	}
	sort.Strings(keys)
	if len(fatalFails) > 0 && len(keys) > 0 {
		// the code under test can kill the process it runs in: nothing of it is
		// executed in this process any more (shrinking does that); the fatal
		// error is the finding that is reported
		fmt.Printf("note: %d other violation class(es) %v were seen but are not triaged: the code under test ends some runs in a fatal runtime error, which shrinking in this process would not survive\n", len(keys), keys)
		keys = nil
		raceFails = nil
	}
	o := opts{tier: *tier, race: false, known: kf}
	nviol := 0
	replayTrouble := false
	var reports []map[string]any
	for _, k := range keys {
		f := byKey[k]
		var v0 *engine.Violation
		for _, v := range f.Violations {
			if v.Key() == k {
				v0 = v
			}
		}
		if strings.HasPrefix(v0.Oracle, "race") {
			// found by the -race binary: cannot be re-executed in this binary;
			// report with the unshrunk choice list, confirmed by the race binary.
			path := writeReplay(*replays, *prop, *eng, v0, *seed, f, f.Choices, nil, *tier, true, *repoHead, "")
			fmt.Printf("VIOLATION property=%s replay=%s\n", *prop, path)
			fmt.Printf("  %s: %s\n", k, v0.Msg)
			nviol++
			continue
		}
		ok := o
		ok.race = f.FromRace
		pred := func(choices []int) (*runResult, bool) {
			c := simrt.NewReplayChooser(choices)
			r := runOne(e, c, f.Param, ok, engine.NewStats(), false)
			for _, v := range r.Violations {
				if v.Key() == k {
					return r, true
				}
			}
			return r, false
		}
		if _, ok := pred(f.Choices); !ok {
			// never reported as a VIOLATION; it does not mask the confirmed
			// violations of the same batch either (exit 2 only if there is none)
			fmt.Fprintf(os.Stderr, "harness trouble: failure %s of run %d does not reproduce in-process from its own choice list\n", k, f.Idx)
			replayTrouble = true
			continue
		}
		min := shrink(f.Choices, pred, 4000)
		c := simrt.NewReplayChooser(min)
		final := runOne(e, c, f.Param, ok, engine.NewStats(), true)
		var fv *engine.Violation
		for _, v := range final.Violations {
			if v.Key() == k {
				fv = v
			}
		}
		if fv == nil {
			fmt.Fprintf(os.Stderr, "harness trouble: minimised list for %s does not reproduce\n", k)
			return 2
		}
		path := writeReplay(*replays, *prop, *eng, fv, *seed, f, min, final.Trace, *tier, f.FromRace, *repoHead, final.Fingerprint)
		// confirm twice in fresh processes (of the binary the failure came from)
		confirmBin := self
		if f.FromRace && *raceBin != "" {
			confirmBin = *raceBin
		}
		okc := 0
		for i := 0; i < 2; i++ {
			out, _ := exec.Command(confirmBin, "replay", "-file", path, "-json", "-known", *known).Output()
			var r struct {
				Same        bool   `json:"same"`
				Fingerprint string `json:"fingerprint"`
			}
			json.Unmarshal(out, &r)
			if r.Same && r.Fingerprint == final.Fingerprint {
				okc++
			}
		}
		if okc != 2 {
			fl := filepath.Join(*replays, "_flaky")
			os.MkdirAll(fl, 0o755)
			os.Rename(path, filepath.Join(fl, filepath.Base(path)))
			fmt.Fprintf(os.Stderr, "harness trouble: minimised replay of %s is not reproducible in a fresh process (%d/2); kept under %s\n", k, okc, fl)
			return 2
		}
		fmt.Printf("VIOLATION property=%s replay=%s\n", fv.Property, path)
		fmt.Printf("  %s: %s\n", k, fv.Msg)
		for _, l := range final.Trace {
			fmt.Println("    " + l)
		}
		nviol++
		reports = append(reports, map[string]any{"key": k, "msg": fv.Msg, "replay": path, "choices": len(min), "original_choices": len(f.Choices)})
	}

	// ---- data races reported by the -race binary under simulator schedules
	raceSeen := map[string]bool{}
	raceTrouble := false
	for _, rf := range raceFails {
		class := raceClass(rf.Report)
		if raceSeen[class] {
			continue
		}
		raceSeen[class] = true
		v := &engine.Violation{Property: *prop, Oracle: "race-detector", Class: class, Msg: "data race reported by the Go race detector under a simulator-chosen schedule:\n" + trimReport(rf.Report)}
		isKnown := false
		for _, k := range kf {
			if k.Status == "open" && k.Property == *prop && k.Oracle == "race-detector" && k.Class == class {
				isKnown = true
				total.Counters["known:"+k.ID]++
			}
		}
		if isKnown {
			continue
		}
		// the choice list of that run, from the plain binary (same seed => same choices)
		// (run the way the -race binary runs it: no oracle that stops the run
		// early, no reference servers - otherwise a functional violation of the
		// same run would cut the list short)
		c := simrt.NewSearchChooser(*seed, rf.Idx)
		orace := o
		orace.race = true
		plain := runOne(e, c, -1, orace, engine.NewStats(), true)
		f := &runResult{Idx: rf.Idx, Param: -1, Choices: plain.Choices}
		raceReplay := func(choices []int) bool {
			tmp := writeReplay(os.TempDir(), *prop, *eng, v, *seed, f, choices, nil, *tier, true, *repoHead, "")
			defer os.Remove(tmp)
			cmd := exec.Command(*raceBin, "replay", "-file", tmp, "-json", "-known", *known)
			cmd.Env = append(os.Environ(), "GORACE=halt_on_error=1 exitcode=66")
			var eb strings.Builder
			cmd.Stderr = &eb
			err := cmd.Run()
			ee, ok := err.(*exec.ExitError)
			// any race report reproduces the finding: which of two racing accesses
			// the detector names first (and so the class) may differ between two
			// reports of one and the same race
			return ok && ee.ExitCode() == 66 && strings.Contains(eb.String(), "DATA RACE")
		}
		// the detector keeps a bounded, randomly evicted history per memory word:
		// whether a given racing pair is still visible when the second access
		// happens varies between executions of one and the same schedule, so one
		// reproduction in four replays is asked for, not two in two
		reproduced := false
		for try := 0; try < 4 && !reproduced; try++ {
			reproduced = raceReplay(plain.Choices)
		}
		if !reproduced {
			// second attempt: the same process history (the runs the worker executed
			// before it, each of which is deterministic)
			hist := &workerHistory{From: rf.From, Step: rf.Step, Count: rf.Count}
			if replayHistory(*raceBin, *eng, *tier, *seed, *known, hist, rf.Idx) && replayHistory(*raceBin, *eng, *tier, *seed, *known, hist, rf.Idx) {
				c2 := simrt.NewReplayChooser(plain.Choices)
				final := runOne(e, c2, -1, orace, engine.NewStats(), true)
				path := writeReplayHist(*replays, *prop, *eng, v, *seed, f, plain.Choices, final.Trace, *tier, *repoHead, hist)
				fmt.Printf("VIOLATION property=%s replay=%s\n", *prop, path)
				fmt.Printf("  %s: %s\n", v.Key(), v.Msg)
				fmt.Printf("    (reported only after the %d runs that preceded run %d in its worker process; the replay file repeats that history)\n", rf.Count-1, rf.Idx)
				for _, l := range final.Trace {
					fmt.Println("    " + l)
				}
				nviol++
				reports = append(reports, map[string]any{"key": v.Key(), "msg": trunc(v.Msg, 2000), "replay": path, "choices": len(plain.Choices), "history_runs": rf.Count})
				continue
			}
			fmt.Fprintf(os.Stderr, "harness trouble: data race %s of run %d does not reproduce from its choice list in a fresh process\n", class, rf.Idx)
			fmt.Fprintln(os.Stderr, trimReport(rf.Report))
			raceTrouble = true
			continue
		}
		min := shrink(plain.Choices, func(ch []int) (*runResult, bool) {
			return &runResult{Choices: ch}, raceReplay(ch)
		}, 150)
		c2 := simrt.NewReplayChooser(min)
		final := runOne(e, c2, -1, o, engine.NewStats(), true)
		path := writeReplay(*replays, *prop, *eng, v, *seed, f, min, final.Trace, *tier, true, *repoHead, "")
		fmt.Printf("VIOLATION property=%s replay=%s\n", *prop, path)
		fmt.Printf("  %s: %s\n", v.Key(), v.Msg)
		for _, l := range final.Trace {
			fmt.Println("    " + l)
		}
		nviol++
		reports = append(reports, map[string]any{"key": v.Key(), "msg": trunc(v.Msg, 2000), "replay": path, "choices": len(min), "original_choices": len(plain.Choices)})
	}

	// ---- fatal runtime errors of the code under test (they kill the process: every
	// confirmation, shrinking step and replay is a child process)
	fatalSeen := map[string]bool{}
	for _, ff := range fatalFails {
		if fatalSeen[ff.Class] {
			continue
		}
		fatalSeen[ff.Class] = true
		v := &engine.Violation{Property: *prop, Oracle: "invariant", Class: "fatal-" + sanitize(ff.Class),
			Msg: "the code under test ends in a fatal error of the Go runtime (the process dies; no recover can catch it): " + ff.Class + "\n" + fatalTop(ff.Report)}
		self, _ := os.Executable()
		if ff.Hang {
			_, top := hangFromCode(ff.Report)
			v.Class = "hang"
			v.Msg = "the code under test never finishes this run: " + hangClass + "; where it was after " + noProgress.String() + ":\n" + top
		}
		rec := filepath.Join(os.TempDir(), fmt.Sprintf("verif-fatal-%d-%d.choices", os.Getpid(), ff.Idx))
		cmd := exec.Command(self, "fatalrun", "-engine", *eng, "-tier", *tier, "-seed", fmt.Sprint(*seed), "-idx", fmt.Sprint(ff.Idx), "-known", *known, "-record", rec)
		var eb strings.Builder
		cmd.Stderr = &eb
		err := runLimited(cmd, hangReplayLimit)
		cls, _ := fatalClass(eb.String())
		if ff.Hang && err == errTimedOut {
			cls = hangClass
		}
		var choices []int
		if b, rerr := os.ReadFile(rec); rerr == nil {
			for _, f := range strings.Fields(string(b)) {
				n, _ := strconv.Atoi(f)
				choices = append(choices, n)
			}
		}
		os.Remove(rec)
		f := &runResult{Idx: ff.Idx, Param: -1, Choices: choices}
		fatalReplay := func(ch []int) bool {
			tmp := writeReplay(os.TempDir(), *prop, *eng, v, *seed, f, ch, nil, *tier, false, *repoHead, "")
			defer os.Remove(tmp)
			markFatal(tmp)
			c := exec.Command(self, "replay", "-file", tmp, "-json", "-known", *known)
			c.Env = append(os.Environ(), "VERIF_FATAL_CHILD=1")
			var e2 strings.Builder
			c.Stderr = &e2
			err := runLimited(c, hangReplayLimit)
			if err == nil {
				return false
			}
			if ff.Hang {
				return err == errTimedOut
			}
			got, fromCode := fatalClass(e2.String())
			return fromCode && got == ff.Class
		}
		if err == nil || cls != ff.Class || !fatalReplay(choices) || (!ff.Hang && !fatalReplay(choices)) {
			fmt.Fprintf(os.Stderr, "harness trouble: fatal error %q of run %d does not reproduce in a fresh process\n%s\n", ff.Class, ff.Idx, trunc(ff.Report, 4000))
			raceTrouble = true
			continue
		}
		min := choices
		if !ff.Hang {
			// (a hang costs hangReplayLimit per attempt: reported unshrunk)
			min = shrink(choices, func(ch []int) (*runResult, bool) {
				return &runResult{Choices: ch}, fatalReplay(ch)
			}, 40)
		}
		path := writeReplay(*replays, *prop, *eng, v, *seed, f, min, nil, *tier, false, *repoHead, "")
		markFatal(path)
		fmt.Printf("VIOLATION property=%s replay=%s\n", *prop, path)
		fmt.Printf("  %s: %s\n", v.Key(), v.Msg)
		nviol++
		reports = append(reports, map[string]any{"key": v.Key(), "msg": trunc(v.Msg, 2000), "replay": path, "choices": len(min), "original_choices": len(choices)})
	}

	// ---- known findings hit
	var knownHit []string
	for _, k := range kf {
		if k.Status == "open" && k.Property == *prop && total.Counters["known:"+k.ID] > 0 {
			fmt.Printf("KNOWN-FINDING: property=%s %s (%s; hit %d times)\n", k.Property, k.What, k.ID, total.Counters["known:"+k.ID])
			knownHit = append(knownHit, k.ID)
		}
	}

	// ---- evidence
	wall := time.Since(start).Seconds()
	real, stub := e.Components()
	counters := map[string]int64{}
	faults := map[string]int64{}
	probes := map[string]int64{}
	for k, v := range total.Counters {
		switch {
		case strings.HasPrefix(k, "fault:"):
			faults[strings.TrimPrefix(k, "fault:")] = v
		case strings.HasPrefix(k, "probe:"):
			probes[strings.TrimPrefix(k, "probe:")] = v
		default:
			counters[k] = v
		}
	}
	samples := []any{}
	sort.Slice(total.Samples, func(i, j int) bool { return total.Samples[i].Run < total.Samples[j].Run })
	for i, s := range total.Samples {
		if i >= 3 {
			break
		}
		samples = append(samples, s)
	}
	if len(samples) == 0 {
		samples = append(samples, "no non-trivial run sampled")
	}
	var instr any
	if *instrReport != "" {
		if b, err := os.ReadFile(*instrReport); err == nil {
			var m map[string]any
			json.Unmarshal(b, &m)
			delete(m, "map_range_sites")
			delete(m, "notes")
			instr = m
		}
	}
	ev := map[string]any{
		"property_id": *prop,
		"tier":        *tier,
		"seed":        *seed,
		"level":       *level,
		"wall_s":      wall,
		"violations":  nviol,
		"coverage": map[string]any{
			"evaluations":         nruns + nenum + total.Counters["race:runs"],
			"distinct_nontrivial": len(total.Sigs),
			"rule":                e.Rule(),
			"samples":             samples,
			"engine":              e.Name(),
			"seeded_runs":         nruns,
			"enumerated_runs":     nenum,
			"race_detector_runs":  total.Counters["race:runs"],
			"run_index_range":     []uint64{0, *runs},
			"runs_per_hour":       int64(float64(nruns+nenum) / searchWall * 3600),
			"distinct_states":     len(total.States),
			"faults_fired":        faults,
			"reach_probes":        probes,
			"counters":            counters,
			"known_findings_hit":  knownHit,
			"violation_reports":   reports,
			"real_components":     real,
			"stub_components":     stub,
			"instrumentation":     instr,
			"workers":             *workers,
			"exhaustive":          false,
		},
		"assumptions": []string{
			"seeded search over schedules, faults and histories: a clean batch is evidence, not proof",
			"preemption only at simulator yield points (locks, sync.Map, disk/clock/exec calls, client calls, task start/end); plain memory races are left to the -race pass where one is run",
			"the instrumented scratch copy behaves like /repo apart from the rewritten seams (go statements, sync types, map range order, os/filepath/time/exec calls)",
		},
	}
	if *evidence != "" {
		b, _ := json.MarshalIndent(ev, "", " ")
		os.MkdirAll(filepath.Dir(*evidence), 0o755)
		if err := os.WriteFile(*evidence, b, 0o644); err != nil {
			fmt.Fprintln(os.Stderr, "evidence:", err)
			return 2
		}
	}
	fmt.Printf("%s/%s %s: %d seeded + %d enumerated runs (+%d under -race) in %.1fs, %d distinct non-trivial signatures, %d states, %d violation(s), known findings hit: %v\n",
		*prop, *eng, *tier, nruns, nenum, total.Counters["race:runs"], wall, len(total.Sigs), len(total.States), nviol, knownHit)
	if nviol > 0 {
		return 1
	}
	if trouble && nviol == 0 {
		fmt.Fprintln(os.Stderr, "harness trouble: a worker failed and no fatal error / hang of the code under test could be confirmed")
		return 2
	}
	if raceTrouble || replayTrouble {
		// a race report that cannot be replayed and no confirmed violation at all:
		// the machinery could not do its job (never a pass, never a VIOLATION)
		return 2
	}
	return 0
}

type fatalFail struct {
	Idx    uint64
	Class  string
	Report string
	Hang   bool
}

const hangClass = "no progress (endless loop, or a wait nothing will end)"

// noProgress: a run takes milliseconds; a worker that has not announced its
// next run for this long is in an endless loop or waits for something no
// scheduler decision can bring about.
var noProgress = 45 * time.Second

// hangFromCode: in the goroutine dump a worker prints on SIGQUIT, is there a
// goroutine whose innermost frame outside the runtime belongs to the code
// under test? (Tasks the simulator has parked wait inside the simulator.)
func hangFromCode(dump string) (bool, string) {
	for _, blk := range strings.Split(dump, "\n\ngoroutine ")[1:] {
		lines := strings.Split(blk, "\n")
		if !strings.Contains(lines[0], "[running") && !strings.Contains(lines[0], "[runnable") {
			continue // parked or blocked: tasks the simulator holds wait inside the simulator
		}
		var fns []string
		for _, l := range lines[1:] {
			if l == "" || l[0] == '\t' || strings.HasPrefix(l, "created by ") {
				continue
			}
			fns = append(fns, l)
		}
		for _, l := range fns {
			switch {
			case strings.HasPrefix(l, "runtime."), strings.HasPrefix(l, "internal/"), strings.HasPrefix(l, "sync."), strings.HasPrefix(l, "sync/"), strings.HasPrefix(l, "time."), strings.HasPrefix(l, "strings."), strings.HasPrefix(l, "sort."), strings.HasPrefix(l, "bytes."), strings.HasPrefix(l, "unicode"), strings.HasPrefix(l, "regexp"), strings.HasPrefix(l, "slices."), strings.HasPrefix(l, "maps."):
				continue
			case strings.Contains(l, "/internal/verifsim/simrt.Map"), strings.Contains(l, "/internal/verifsim/simsync."), strings.Contains(l, "/internal/verifsim/simfs."), strings.Contains(l, "/internal/verifsim/simclock."), strings.Contains(l, "/internal/verifsim/simexec."):
				continue // simulated primitives called by the code under test
			}
			if strings.HasPrefix(l, "github.com/juev/hledger-lsp/") && !strings.Contains(l, "/internal/verifsim/") && !strings.Contains(l, "/cmd/verifsim") {
				var top []string
				for _, f := range fns {
					if i := strings.LastIndex(f, "("); i > 0 {
						f = f[:i]
					}
					top = append(top, f)
					if len(top) == 8 {
						break
					}
				}
				return true, "    " + strings.Join(top, " <- ")
			}
			break
		}
	}
	return false, ""
}

// fatalClass extracts the runtime's "fatal error: ..." line from a dead
// worker's stderr and says whether the goroutine that was running belongs to
// the code under test (first frame that is not the runtime's).
func fatalClass(stderr string) (class string, fromCode bool) {
	i := strings.Index(stderr, "fatal error: ")
	if i < 0 {
		return "", false
	}
	rest := stderr[i+len("fatal error: "):]
	if j := strings.IndexByte(rest, '\n'); j >= 0 {
		class, rest = rest[:j], rest[j:]
	} else {
		return rest, false
	}
	running := false
	for _, l := range strings.Split(rest, "\n") {
		if strings.HasPrefix(l, "goroutine ") {
			if running {
				break
			}
			running = strings.Contains(l, "[running]")
			continue
		}
		if !running || l == "" || l[0] == '\t' {
			continue
		}
		switch {
		case strings.HasPrefix(l, "runtime."), strings.HasPrefix(l, "internal/"), strings.HasPrefix(l, "sync."), strings.HasPrefix(l, "strings."), strings.HasPrefix(l, "sort."):
			continue
		case strings.Contains(l, "/internal/verifsim/simsync."), strings.Contains(l, "/internal/verifsim/simrt.MapSeq"):
			continue
		}
		return class, strings.HasPrefix(l, "github.com/juev/hledger-lsp/") && !strings.Contains(l, "/internal/verifsim/") && !strings.Contains(l, "/cmd/verifsim")
	}
	return class, false
}

// fatalTop is the head of the running goroutine's stack, function names only.
func fatalTop(stderr string) string {
	var out []string
	running := false
	for _, l := range strings.Split(stderr, "\n") {
		if strings.HasPrefix(l, "goroutine ") {
			if running {
				break
			}
			running = strings.Contains(l, "[running]")
			continue
		}
		if running && l != "" && l[0] != '\t' {
			if i := strings.LastIndex(l, "("); i > 0 {
				l = l[:i]
			}
			if len(out) == 0 || out[len(out)-1] != l {
				out = append(out, l)
			}
			if len(out) == 10 {
				break
			}
		}
	}
	return "    " + strings.Join(out, " <- ")
}

var errTimedOut = errors.New("timed out")

const hangReplayLimit = 30 * time.Second

// runLimited runs cmd and kills it after limit.
func runLimited(cmd *exec.Cmd, limit time.Duration) error {
	if err := cmd.Start(); err != nil {
		return err
	}
	done := make(chan error, 1)
	go func() { done <- cmd.Wait() }()
	select {
	case err := <-done:
		return err
	case <-time.After(limit):
		cmd.Process.Kill()
		<-done
		return errTimedOut
	}
}

func markFatal(path string) {
	b, err := os.ReadFile(path)
	if err != nil {
		return
	}
	var rf replayFile
	if json.Unmarshal(b, &rf) == nil {
		rf.Fatal = true
		nb, _ := json.MarshalIndent(rf, "", " ")
		os.WriteFile(path, nb, 0o644)
	}
}

// cmdFatalRun executes one seeded run, appending every choice to a file as it
// is drawn: the process is expected to die, the file is what survives.
func cmdFatalRun(args []string) int {
	fs := flag.NewFlagSet("fatalrun", flag.ExitOnError)
	eng := fs.String("engine", "", "")
	tier := fs.String("tier", "quick", "")
	seed := fs.Uint64("seed", 1, "")
	idx := fs.Uint64("idx", 0, "")
	known := fs.String("known", "", "")
	record := fs.String("record", "", "")
	fs.Parse(args)
	e := engine.Get(*eng)
	if e == nil {
		return 2
	}
	f, err := os.OpenFile(*record, os.O_CREATE|os.O_WRONLY|os.O_TRUNC, 0o644)
	if err != nil {
		fmt.Fprintln(os.Stderr, err)
		return 2
	}
	c := simrt.NewSearchChooser(*seed, *idx)
	c.Trace = func(label string, n, v int) { fmt.Fprintf(f, "%d\n", v) }
	o := opts{tier: *tier, race: simrt.RaceBuild, known: engine.LoadKnown(*known)}
	runOne(e, c, -1, o, engine.NewStats(), false)
	f.Close()
	return 0
}

type raceFail struct {
	Idx    uint64
	Report string
	From   uint64
	Step   int
	Count  uint64
}

// raceClass names a race report by the functions of its two top frames.
func raceClass(report string) string {
	var fns []string
	lines := strings.Split(report, "\n")
	for i, l := range lines {
		if (strings.HasPrefix(l, "Write at") || strings.HasPrefix(l, "Read at") || strings.HasPrefix(l, "Previous write at") || strings.HasPrefix(l, "Previous read at")) && i+1 < len(lines) {
			// first frame that is not runtime/sync internals
			for j := i + 1; j < len(lines) && strings.HasPrefix(lines[j], "  "); j += 2 {
				fn := strings.TrimSpace(lines[j])
				if strings.HasPrefix(fn, "runtime.") || strings.HasPrefix(fn, "sync.") || strings.HasPrefix(fn, "internal/") {
					continue
				}
				fn = strings.TrimSuffix(fn, "()")
				fn = fn[strings.LastIndex(fn, "/")+1:]
				fns = append(fns, fn)
				break
			}
		}
		if len(fns) == 2 {
			break
		}
	}
	if len(fns) == 0 {
		return "race-unparsed"
	}
	sort.Strings(fns)
	return "race:" + strings.Join(fns, "~")
}

func trimReport(r string) string {
	i := strings.Index(r, "WARNING: DATA RACE")
	if i < 0 {
		return r
	}
	r = r[i:]
	if j := strings.Index(r, "Goroutine "); j > 0 {
		r = r[:j]
	}
	return r
}

func trunc(s string, n int) string {
	if len(s) > n {
		return s[:n] + "…"
	}
	return s
}

func writeReplay(dir, prop, eng string, v *engine.Violation, seed uint64, f *runResult, choices []int, trace []string, tier string, race bool, head, fp string) string {
	if dir == "" {
		dir = "replays"
	}
	d := filepath.Join(dir, prop)
	os.MkdirAll(d, 0o755)
	name := fmt.Sprintf("%s-%s-%d-%d.json", sanitize(v.Oracle), sanitize(v.Class), seed, f.Idx)
	path := filepath.Join(d, name)
	rf := replayFile{Property: v.Property, Engine: eng, Oracle: v.Oracle, Class: v.Class, Msg: v.Msg, Witness: v.Witness, Seed: seed, Run: f.Idx, Param: f.Param,
		Tier: tier, Race: race, Choices: choices, Fingerprint: fp, Trace: trace, RepoHead: head, OrigChoices: len(f.Choices)}
	b, _ := json.MarshalIndent(rf, "", " ")
	os.WriteFile(path, b, 0o644)
	return path
}

// replayHistory runs the -race binary as a worker over the index sequence the
// original worker executed and reports whether it dies with a race report at
// the same run.
func replayHistory(bin, eng, tier string, seed uint64, known string, h *workerHistory, idx uint64) bool {
	if bin == "" || h == nil || h.Count == 0 {
		return false
	}
	cmd := exec.Command(bin, "worker", "-engine", eng, "-tier", tier, "-seed", fmt.Sprint(seed), "-from", fmt.Sprint(h.From), "-step", fmt.Sprint(h.Step),
		"-runs", fmt.Sprint(h.Count), "-seconds", "600", "-known", known, "-enum-n", "0")
	cmd.Env = append(os.Environ(), "GORACE=halt_on_error=1 exitcode=66")
	var eb strings.Builder
	cmd.Stderr = &eb
	out, err := cmd.Output()
	ee, ok := err.(*exec.ExitError)
	if !ok || ee.ExitCode() != 66 || !strings.Contains(eb.String(), "DATA RACE") {
		return false
	}
	last := uint64(0)
	for _, l := range strings.Split(string(out), "\n") {
		var wo workerOut
		if json.Unmarshal([]byte(l), &wo) == nil && wo.Start != nil {
			last = *wo.Start
		}
	}
	return last == idx
}

func writeReplayHist(dir, prop, eng string, v *engine.Violation, seed uint64, f *runResult, choices []int, trace []string, tier, head string, h *workerHistory) string {
	path := writeReplay(dir, prop, eng, v, seed, f, choices, trace, tier, true, head, "")
	b, err := os.ReadFile(path)
	if err != nil {
		return path
	}
	var rf replayFile
	if json.Unmarshal(b, &rf) == nil {
		rf.History = h
		nb, _ := json.MarshalIndent(rf, "", " ")
		os.WriteFile(path, nb, 0o644)
	}
	return path
}

func sanitize(s string) string {
	var b strings.Builder
	for _, r := range s {
		if r >= 'a' && r <= 'z' || r >= 'A' && r <= 'Z' || r >= '0' && r <= '9' || r == '-' || r == '_' {
			b.WriteRune(r)
		} else {
			b.WriteByte('_')
		}
	}
	out := b.String()
	if len(out) > 40 {
		out = out[:40]
	}
	return out
}

// shrinkWall bounds the wall-clock time spent minimising one failure.
var shrinkWall = 12 * time.Second

// shrink minimises a choice list while pred keeps holding (Hypothesis-style
// passes: delete blocks, zero blocks, lower single values).
func shrink(choices []int, pred func([]int) (*runResult, bool), budget int) []int {
	cur := append([]int(nil), choices...)
	// first: truncate to what the failing run actually consumed
	if r, ok := pred(cur); ok && len(r.Choices) < len(cur) {
		cur = append([]int(nil), r.Choices...)
	}
	tries := 0
	deadline := time.Now().Add(shrinkWall)
	try := func(cand []int) bool {
		if tries >= budget || time.Now().After(deadline) {
			tries = budget
			return false
		}
		tries++
		r, ok := pred(cand)
		if ok {
			// adopt the choices actually consumed (drops the unused tail, and
			// normalises out-of-range values to what was used)
			cur = append([]int(nil), r.Choices...)
			return true
		}
		return false
	}
	improved := true
	for improved && tries < budget {
		improved = false
		// delete blocks
		for _, bs := range []int{16, 8, 4, 2, 1} {
			for i := 0; i+bs <= len(cur); {
				cand := append(append([]int(nil), cur[:i]...), cur[i+bs:]...)
				if try(cand) {
					improved = true
				} else {
					i += bs
				}
				if tries >= budget {
					break
				}
			}
		}
		// zero blocks
		for _, bs := range []int{8, 4, 2, 1} {
			for i := 0; i+bs <= len(cur); i += bs {
				allZero := true
				for j := i; j < i+bs; j++ {
					if cur[j] != 0 {
						allZero = false
					}
				}
				if allZero {
					continue
				}
				cand := append([]int(nil), cur...)
				for j := i; j < i+bs; j++ {
					cand[j] = 0
				}
				if try(cand) {
					improved = true
				}
			}
		}
		// lower single values
		for i := 0; i < len(cur); i++ {
			for i < len(cur) && cur[i] > 0 && tries < budget {
				cand := append([]int(nil), cur...)
				cand[i] = cur[i] / 2
				if try(cand) {
					improved = true
					continue
				}
				if cur[i] > 1 {
					cand = append([]int(nil), cur...)
					cand[i] = cur[i] - 1
					if try(cand) {
						improved = true
						continue
					}
				}
				break
			}
		}
	}
	return cur
}

// cmdFingerprints prints "<run index> <event-log fingerprint> <violation keys>"
// for a range of runs: the determinism self-test diffs this output across
// processes, GOMAXPROCS values and binaries.
func cmdFingerprints(args []string) int {
	fs := flag.NewFlagSet("fingerprints", flag.ExitOnError)
	eng := fs.String("engine", "", "")
	seed := fs.Uint64("seed", 1, "")
	from := fs.Uint64("from", 0, "")
	count := fs.Uint64("count", 64, "")
	tier := fs.String("tier", "quick", "")
	known := fs.String("known", "", "")
	shuffle := fs.Bool("reverse", false, "run the indices in reverse order (independence of runs)")
	fs.Parse(args)
	e := engine.Get(*eng)
	if e == nil {
		return 2
	}
	o := opts{tier: *tier, race: simrt.RaceBuild, known: engine.LoadKnown(*known)}
	lines := make([]string, *count)
	for i := uint64(0); i < *count; i++ {
		j := i
		if *shuffle {
			j = *count - 1 - i
		}
		c := simrt.NewSearchChooser(*seed, *from+j)
		res := runOne(e, c, -1, o, engine.NewStats(), os.Getenv("VERIF_DUMPLOG") == fmt.Sprint(*from+j))
		if os.Getenv("VERIF_DUMPLOG") == fmt.Sprint(*from+j) {
			for _, l := range res.LogLines {
				fmt.Fprintln(os.Stderr, l)
			}
		}
		var keys []string
		for _, v := range res.Violations {
			keys = append(keys, v.Key())
		}
		lines[j] = fmt.Sprintf("%d %s %d %v", *from+j, res.Fingerprint, res.Steps, keys)
	}
	for _, l := range lines {
		fmt.Println(l)
	}
	return 0
}
