// Package simsync provides drop-in replacements for sync.Mutex, sync.RWMutex,
// sync.Map, sync.WaitGroup and sync.Once whose blocking behaviour is owned by
// the simulator: every operation is a preemption point, a contended lock parks
// the task, and the scheduler sees deadlocks.  Each lock also owns a real
// sync lock that is taken after the cooperative acquisition succeeded (so it is
// never contended); under -race the detector therefore sees exactly the
// happens-before edges of the original program.
package simsync

import (
	"runtime"
	"strconv"
	"sync"

	"github.com/juev/hledger-lsp/internal/verifsim/simrt"
)

func site(skip int) string {
	_, file, line, ok := runtime.Caller(skip)
	if !ok {
		return "?"
	}
	// keep the last two path elements
	n := 0
	for i := len(file) - 1; i >= 0; i-- {
		if file[i] == '/' {
			n++
			if n == 2 {
				file = file[i+1:]
				break
			}
		}
	}
	return file + ":" + strconv.Itoa(line)
}

// The real lock behind a simulated one is taken when the cooperative
// acquisition has succeeded (task mode) or by the only goroutine there is
// (direct mode: an engine calling a component outside any scheduler), so it is
// never contended. If it is taken all the same, waiting for it would wait for
// ever - a lock that was never released, or a lock taken twice on one call
// path: the real program deadlocks here. The simulated lock panics instead, so
// that the run ends with a crash verdict and a replay file rather than with a
// worker process that never comes back.
const selfDeadlock = "deadlock: this lock is held and nothing that is running can release it (it was not released on an earlier path, or it is taken twice on this one)"

// lock state, touched only on the scheduler goroutine
type lstate struct {
	writer  *simrt.Task
	readers map[*simrt.Task]int
	waitW   map[*simrt.Task]bool // writers that attempted and are waiting
}

// Mutex replaces sync.Mutex.
type Mutex struct {
	real sync.Mutex
	st   lstate
}

func (m *Mutex) Lock() {
	if t := simrt.CurrentTask(); t != nil {
		simrt.Call(&simrt.Req{Kind: "lock", Site: site(2),
			Do: func() (*simrt.Resp, bool) {
				if m.st.writer != nil {
					return nil, false
				}
				m.st.writer = t
				return nil, true
			},
			Ready: func() bool { return m.st.writer == nil },
		})
	}
	if !m.real.TryLock() {
		panic(selfDeadlock)
	}
}

func (m *Mutex) TryLock() bool {
	if t := simrt.CurrentTask(); t != nil {
		r := simrt.Call(&simrt.Req{Kind: "trylock", Site: site(2),
			Do: func() (*simrt.Resp, bool) {
				if m.st.writer != nil {
					return &simrt.Resp{B: false}, true
				}
				m.st.writer = t
				return &simrt.Resp{B: true}, true
			}})
		if !r.B {
			return false
		}
		m.real.Lock()
		return true
	}
	return m.real.TryLock()
}

// The runtime answers an unlock of an unlocked mutex with a fatal error that
// no recover can catch; the simulated locks turn it into an ordinary panic (a
// crash verdict with a replay file instead of a dead worker process).
func (m *Mutex) Unlock() {
	if m.real.TryLock() {
		m.real.Unlock()
		panic("sync: unlock of unlocked mutex")
	}
	m.real.Unlock()
	if simrt.CurrentTask() != nil {
		simrt.Call(&simrt.Req{Kind: "unlock", Site: "",
			Do: func() (*simrt.Resp, bool) {
				m.st.writer = nil
				return nil, true
			}})
	}
}

// RWMutex replaces sync.RWMutex, including Go's writer preference: a writer
// that has attempted Lock and waits blocks new readers.
type RWMutex struct {
	real sync.RWMutex
	st   lstate
}

func (m *RWMutex) Lock() {
	if t := simrt.CurrentTask(); t != nil {
		free := func() bool { return m.st.writer == nil && len(m.st.readers) == 0 }
		simrt.Call(&simrt.Req{Kind: "lock", Site: site(2),
			Do: func() (*simrt.Resp, bool) {
				if !free() {
					if m.st.waitW == nil {
						m.st.waitW = map[*simrt.Task]bool{}
					}
					m.st.waitW[t] = true
					return nil, false
				}
				delete(m.st.waitW, t)
				m.st.writer = t
				return nil, true
			},
			Ready: free,
		})
	}
	if !m.real.TryLock() {
		panic(selfDeadlock)
	}
}

func (m *RWMutex) Unlock() {
	if m.real.TryLock() {
		m.real.Unlock()
		panic("sync: Unlock of unlocked RWMutex")
	}
	m.real.Unlock()
	if simrt.CurrentTask() != nil {
		simrt.Call(&simrt.Req{Kind: "unlock", Site: "",
			Do: func() (*simrt.Resp, bool) {
				m.st.writer = nil
				return nil, true
			}})
	}
}

func (m *RWMutex) RLock() {
	if t := simrt.CurrentTask(); t != nil {
		free := func() bool { return m.st.writer == nil && len(m.st.waitW) == 0 }
		simrt.Call(&simrt.Req{Kind: "rlock", Site: site(2),
			Do: func() (*simrt.Resp, bool) {
				if !free() {
					return nil, false
				}
				if m.st.readers == nil {
					m.st.readers = map[*simrt.Task]int{}
				}
				m.st.readers[t]++
				return nil, true
			},
			Ready: free,
		})
	}
	if !m.real.TryRLock() {
		panic(selfDeadlock)
	}
}

func (m *RWMutex) RUnlock() {
	if m.real.TryLock() {
		m.real.Unlock()
		panic("sync: RUnlock of unlocked RWMutex")
	}
	m.real.RUnlock()
	if t := simrt.CurrentTask(); t != nil {
		simrt.Call(&simrt.Req{Kind: "runlock", Site: "",
			Do: func() (*simrt.Resp, bool) {
				if m.st.readers[t] <= 1 {
					delete(m.st.readers, t)
				} else {
					m.st.readers[t]--
				}
				return nil, true
			}})
	}
}

func (m *RWMutex) TryLock() bool {
	if t := simrt.CurrentTask(); t != nil {
		r := simrt.Call(&simrt.Req{Kind: "trylock", Site: site(2),
			Do: func() (*simrt.Resp, bool) {
				if m.st.writer != nil || len(m.st.readers) != 0 {
					return &simrt.Resp{B: false}, true
				}
				m.st.writer = t
				return &simrt.Resp{B: true}, true
			}})
		if !r.B {
			return false
		}
		m.real.Lock()
		return true
	}
	return m.real.TryLock()
}

func (m *RWMutex) TryRLock() bool {
	if t := simrt.CurrentTask(); t != nil {
		r := simrt.Call(&simrt.Req{Kind: "tryrlock", Site: site(2),
			Do: func() (*simrt.Resp, bool) {
				if m.st.writer != nil || len(m.st.waitW) != 0 {
					return &simrt.Resp{B: false}, true
				}
				if m.st.readers == nil {
					m.st.readers = map[*simrt.Task]int{}
				}
				m.st.readers[t]++
				return &simrt.Resp{B: true}, true
			}})
		if !r.B {
			return false
		}
		m.real.RLock()
		return true
	}
	return m.real.TryRLock()
}

func (m *RWMutex) RLocker() sync.Locker { return (*rlocker)(m) }

type rlocker RWMutex

func (r *rlocker) Lock()   { (*RWMutex)(r).RLock() }
func (r *rlocker) Unlock() { (*RWMutex)(r).RUnlock() }

// Map replaces sync.Map.  Every operation is a preemption point; Range visits
// the keys present at the call in simulator-chosen order.
type Map struct {
	real sync.Map
}

func (m *Map) Load(key any) (any, bool) {
	simrt.Yield("smap.load", site(2))
	return m.real.Load(key)
}
func (m *Map) Store(key, value any) {
	simrt.Yield("smap.store", site(2))
	m.real.Store(key, value)
}
func (m *Map) LoadOrStore(key, value any) (any, bool) {
	simrt.Yield("smap.loadorstore", site(2))
	return m.real.LoadOrStore(key, value)
}
func (m *Map) LoadAndDelete(key any) (any, bool) {
	simrt.Yield("smap.loadanddelete", site(2))
	return m.real.LoadAndDelete(key)
}
func (m *Map) Delete(key any) {
	simrt.Yield("smap.delete", site(2))
	m.real.Delete(key)
}
func (m *Map) Swap(key, value any) (any, bool) {
	simrt.Yield("smap.swap", site(2))
	return m.real.Swap(key, value)
}
func (m *Map) CompareAndSwap(key, old, new any) bool {
	simrt.Yield("smap.cas", site(2))
	return m.real.CompareAndSwap(key, old, new)
}
func (m *Map) CompareAndDelete(key, old any) bool {
	simrt.Yield("smap.cad", site(2))
	return m.real.CompareAndDelete(key, old)
}
func (m *Map) Clear() {
	simrt.Yield("smap.clear", site(2))
	m.real.Clear()
}

func (m *Map) Range(f func(key, value any) bool) {
	s := site(2)
	simrt.Yield("smap.range", s)
	tmp := map[any]any{}
	m.real.Range(func(k, v any) bool {
		tmp[k] = v
		return true
	})
	for k := range simrt.MapSeq(tmp, s) {
		v, ok := m.real.Load(k)
		if !ok {
			continue
		}
		if !f(k, v) {
			return
		}
	}
}

// WaitGroup replaces sync.WaitGroup.
type WaitGroup struct {
	n    int // scheduler-owned in task mode
	real sync.WaitGroup
}

func (w *WaitGroup) Add(d int) {
	if simrt.CurrentTask() != nil {
		simrt.Call(&simrt.Req{Kind: "wg.add", Site: site(2), Do: func() (*simrt.Resp, bool) {
			w.n += d
			return nil, true
		}})
	}
	w.real.Add(d)
}
func (w *WaitGroup) Done() { w.Add(-1) }
func (w *WaitGroup) Wait() {
	if simrt.CurrentTask() != nil {
		z := func() bool { return w.n <= 0 }
		simrt.Call(&simrt.Req{Kind: "wg.wait", Site: site(2), Do: func() (*simrt.Resp, bool) { return nil, z() }, Ready: z})
	}
	w.real.Wait()
}

// Once replaces sync.Once.
type Once struct {
	mu   Mutex
	done bool
}

func (o *Once) Do(f func()) {
	o.mu.Lock()
	defer o.mu.Unlock()
	if !o.done {
		defer func() { o.done = true }()
		f()
	}
}
